// verif-pkg: ring
//
// Bounded stand-in / replay harness for C14 (NOT proof): executes the real
// GetTokenRangesForInstance / GetTokenRangesForPartition / IncludesKey and compares
// them with the real lookups (Ring.Get, ActivePartitionForKey) on an enumerated domain.
package ring

import (
	"fmt"
	"os"
	"sort"
	"testing"
	"time"
)

var verifC14Alphabet = []uint32{0, 1, 2, 5, 1 << 31, 1<<32 - 2, 1<<32 - 1}

func verifC14Keys() []uint32 {
	m := map[uint32]bool{}
	for _, a := range verifC14Alphabet {
		m[a], m[a-1], m[a+1] = true, true, true
	}
	var ks []uint32
	for k := range m {
		ks = append(ks, k)
	}
	sort.Slice(ks, func(i, j int) bool { return ks[i] < ks[j] })
	return ks
}

// owners[z][t] = instance index (0-based) owning alphabet token t in zone z, or -1.
func verifC14Desc(owners [][]int, ninst int) *Desc {
	d := NewDesc()
	now := time.Now()
	for z := range owners {
		for i := 0; i < ninst; i++ {
			var toks []uint32
			for t, o := range owners[z] {
				if o == i {
					toks = append(toks, verifC14Alphabet[t])
				}
			}
			id := fmt.Sprintf("i-%d-%d", z, i)
			d.AddIngester(id, "addr-"+id, fmt.Sprintf("zone-%d", z), toks, ACTIVE, now, false, time.Time{}, nil)
		}
	}
	return d
}

func TestVerifBounded_C14_Instances(t *testing.T) {
	thorough := os.Getenv("VERIF_TIER") == "thorough"
	keys := verifC14Keys()
	cases, distinct, fails := 0, 0, 0
	bufD, bufH, bufZ := MakeBuffersForGet()
	check := func(owners [][]int, ninst int) {
		desc := verifC14Desc(owners, ninst)
		r := verifBuildRing(desc, len(owners), true)
		distinct++
		for z := range owners {
			for i := 0; i < ninst; i++ {
				id := fmt.Sprintf("i-%d-%d", z, i)
				ranges, err := r.GetTokenRangesForInstance(id)
				if err != nil {
					continue // zone without tokens etc.: the property speaks about reported ranges
				}
				for _, k := range keys {
					cases++
					rs, gerr := r.Get(k, WriteNoExtend, bufD, bufH, bufZ)
					if gerr != nil {
						continue
					}
					assigned := false
					for _, in := range rs.Instances {
						if in.Id == id {
							assigned = true
						}
					}
					if ranges.IncludesKey(k) != assigned {
						fails++
						if fails <= 5 {
							fmt.Printf("BOUNDED-VIOLATION case=c14-inst:%v:%s:key=%d ranges=%v IncludesKey=%v but lookup assigned=%v\n", owners, id, k, ranges, ranges.IncludesKey(k), assigned)
						}
					}
				}
			}
		}
	}
	// one zone, 2 instances: every assignment of the 7 alphabet tokens to {none, i0, i1}
	var rec func(owners []int, pos, ninst int, f func([]int))
	rec = func(owners []int, pos, ninst int, f func([]int)) {
		if pos == len(owners) {
			f(owners)
			return
		}
		for o := -1; o < ninst; o++ {
			owners[pos] = o
			rec(owners, pos+1, ninst, f)
		}
	}
	rec(make([]int, len(verifC14Alphabet)), 0, 2, func(o []int) { check([][]int{append([]int{}, o...)}, 2) })
	n3 := 0
	rec(make([]int, len(verifC14Alphabet)), 0, 3, func(o []int) {
		n3++
		if thorough || n3%7 == 0 {
			check([][]int{append([]int{}, o...)}, 3)
		}
	})
	// two zones (RF=2), small alphabet prefix per zone
	if thorough {
		small := 4
		rec(make([]int, small), 0, 2, func(a []int) {
			za := append(append([]int{}, a...), -1, -1, -1)
			rec(make([]int, small), 0, 2, func(b []int) {
				zb := append([]int{-1, -1, -1}, b...)
				if za[3] != -1 && zb[3] != -1 {
					return // the two prefixes overlap at one alphabet token: a token is held by one instance ring-wide
				}
				check([][]int{za, zb}, 2)
			})
		})
	}
	fmt.Printf("BOUNDED-CASES name=C14_Instances n=%d distinct=%d bound=zones<=2, instances/zone<=3, tokens from %v, keys=alphabet+-1 (%d keys); IncludesKey(range(id),k) == (id in Ring.Get(k))\n", cases, distinct, verifC14Alphabet, len(keys))
	if fails > 0 {
		t.Fatalf("%d mismatches", fails)
	}
}

func TestVerifBounded_C14_Partitions(t *testing.T) {
	keys := verifC14Keys()
	cases, distinct, fails := 0, 0, 0
	nparts := 3
	var rec func(owners []int, pos int)
	now := time.Now()
	rec = func(owners []int, pos int) {
		if pos < len(owners) {
			for o := -1; o < nparts; o++ {
				owners[pos] = o
				rec(owners, pos+1)
			}
			return
		}
		desc := NewPartitionRingDesc()
		for p := 0; p < nparts; p++ {
			var toks []uint32
			for ti, o := range owners {
				if o == p {
					toks = append(toks, verifC14Alphabet[ti])
				}
			}
			desc.AddPartition(int32(p), PartitionActive, now)
			pd := desc.Partitions[int32(p)]
			pd.Tokens = toks
			desc.Partitions[int32(p)] = pd
		}
		pr, err := NewPartitionRing(*desc)
		if err != nil {
			return
		}
		distinct++
		for p := 0; p < nparts; p++ {
			ranges, err := pr.GetTokenRangesForPartition(int32(p))
			if err != nil {
				fails++
				if fails <= 5 {
					fmt.Printf("BOUNDED-VIOLATION case=c14-part:%v:p=%d unexpected error %v\n", owners, p, err)
				}
				continue
			}
			for _, k := range keys {
				cases++
				got, gerr := pr.ActivePartitionForKey(k)
				if gerr != nil {
					continue
				}
				if ranges.IncludesKey(k) != (got == int32(p)) {
					fails++
					if fails <= 5 {
						fmt.Printf("BOUNDED-VIOLATION case=c14-part:%v:p=%d:key=%d ranges=%v IncludesKey=%v lookup=%d\n", owners, p, k, ranges, ranges.IncludesKey(k), got)
					}
				}
			}
		}
	}
	rec(make([]int, len(verifC14Alphabet)), 0)
	fmt.Printf("BOUNDED-CASES name=C14_Partitions n=%d distinct=%d bound=3 active partitions, tokens from the 7-token alphabet (every assignment), keys=alphabet+-1; IncludesKey(range(p),k) == (ActivePartitionForKey(k)==p)\n", cases, distinct)
	if fails > 0 {
		t.Fatalf("%d mismatches", fails)
	}
}

// Sub-rings (shuffle shards) have their own token indexes, merged from the per-zone token lists by a separate code path:
// the reported ranges must coincide with the sub-ring's own lookups too. Two and three zones, two instances per zone,
// tokens from the boundary alphabet (0, 1, 2^32-1 included), shards of every size for several tenants.
func TestVerifBounded_C14_Subrings(t *testing.T) {
	thorough := os.Getenv("VERIF_TIER") == "thorough"
	keys := verifC14Keys()
	cases, distinct, fails := 0, 0, 0
	bufD, bufH, bufZ := MakeBuffersForGet()
	alpha := verifC14Alphabet
	tenants := []string{"t1", "t2", "t3", "tenant-a", "x"}
	checkRing := func(tag string, r *Ring) {
		distinct++
		for id := range r.ringDesc.Ingesters {
			ranges, err := r.GetTokenRangesForInstance(id)
			if err != nil {
				continue
			}
			for _, k := range keys {
				cases++
				rs, gerr := r.Get(k, WriteNoExtend, bufD, bufH, bufZ)
				if gerr != nil {
					continue
				}
				assigned := false
				for _, in := range rs.Instances {
					if in.Id == id {
						assigned = true
					}
				}
				if ranges.IncludesKey(k) != assigned {
					fails++
					if fails <= 5 {
						fmt.Printf("BOUNDED-VIOLATION case=c14-subring:%s:%s:key=%d ranges=%v IncludesKey=%v but the sub-ring's lookup assigned=%v\n", tag, id, k, ranges, ranges.IncludesKey(k), assigned)
					}
				}
			}
		}
	}
	for zones := 2; zones <= 3; zones++ {
		// rotate the alphabet over (zone, instance) slots: every instance gets at least one token; `shift` moves which
		// instance receives which boundary token
		slots := zones * 2
		for shift := 0; shift < slots; shift++ {
			if !thorough && zones == 3 && shift%2 == 1 {
				continue
			}
			d := NewDesc()
			now := time.Now()
			toks := make([][]uint32, slots)
			for ti, tk := range alpha {
				s := (ti + shift) % slots
				toks[s] = append(toks[s], tk)
			}
			for s := 0; s < slots; s++ {
				id := fmt.Sprintf("i-%d-%d", s%zones, s/zones)
				tl := append([]uint32{}, toks[s]...)
				sort.Slice(tl, func(a, b int) bool { return tl[a] < tl[b] })
				d.AddIngester(id, "addr-"+id, fmt.Sprintf("zone-%d", s%zones), tl, ACTIVE, now, false, time.Time{}, nil)
			}
			r := verifBuildRing(d, zones, true)
			checkRing(fmt.Sprintf("zones=%d:shift=%d:whole", zones, shift), r)
			for _, tn := range tenants {
				for size := zones; size <= slots; size += zones {
					sub := r.ShuffleShard(tn, size)
					sr, ok := sub.(*Ring)
					if !ok || sr == nil {
						continue
					}
					checkRing(fmt.Sprintf("zones=%d:shift=%d:shard(%s,%d)", zones, shift, tn, size), sr)
				}
			}
		}
	}
	fmt.Printf("BOUNDED-CASES name=C14_Subrings n=%d distinct=%d bound=2..3 zones x 2 instances, the boundary alphabet dealt round-robin with every rotation, the whole ring and the shuffle shards of 5 tenants at every multiple-of-zones size; all boundary keys\n", cases, distinct)
	if fails > 0 {
		t.Fatalf("%d mismatches", fails)
	}
}
