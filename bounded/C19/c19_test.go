// verif-pkg: cache
//
// Bounded stand-in / replay harness for C19 (NOT proof): model-based sequences on wrapper stacks over
// the in-process backend, and jump-hash placement stability.
package cache

import (
	"github.com/facette/natsort"
	"sort"
	"bytes"
	"context"
	"fmt"
	"math/rand"
	"os"
	"testing"
	"time"

	"github.com/cespare/xxhash/v2"
	"github.com/go-kit/log"
)

type verifEntry struct {
	val   []byte
	live  bool
	short bool // stored with the 10 s time-to-live: gone from the backend after the next clock advance
	soft  bool // expired in the backend (virtual clock) but possibly still held by an in-memory layer (wall clock, and
	// "the later of its time-to-live and the in-memory layer's default retention"): a read may return it or not
}

func TestVerifBounded_C19_Stacks(t *testing.T) {
	seed := int64(1)
	fmt.Sscan(os.Getenv("VERIF_SEED"), &seed)
	runs := 150
	if os.Getenv("VERIF_TIER") == "thorough" {
		runs = 1500
	}
	cases, fails := 0, 0
	report := func(id, msg string) {
		fails++
		if fails <= 5 {
			fmt.Printf("BOUNDED-VIOLATION case=%s %s\n", id, msg)
		}
	}
	ctx := context.Background()
	logger := log.NewNopLogger()
	// a stack is built from the backend outwards; two versions share everything below the Versioned layer
	type stack struct {
		name  string
		build func(back Cache) (v1, v2 Cache)
	}
	lruOf := func(c Cache) Cache {
		l, err := WrapWithLRUCache(c, "t", nil, 10000, time.Hour, logger)
		if err != nil {
			panic(err)
		}
		return l
	}
	// an LRU that holds two entries only: most sequences evict entries, so the layers below have to answer
	tinyLRU := func(c Cache) Cache {
		l, err := WrapWithLRUCache(c, "tiny", nil, 2, time.Hour, logger)
		if err != nil {
			panic(err)
		}
		return l
	}
	stacks := []stack{
		{"tinylru(versioned(mock))", func(b Cache) (Cache, Cache) {
			return tinyLRU(NewVersioned(b, 1, logger)), tinyLRU(NewVersioned(b, 12, logger))
		}},
		{"versioned(tinylru(snappy(mock)))", func(b Cache) (Cache, Cache) {
			l := tinyLRU(NewSnappy(b, logger))
			return NewVersioned(l, 1, logger), NewVersioned(l, 12, logger)
		}},
		{"versioned(mock)", func(b Cache) (Cache, Cache) { return NewVersioned(b, 1, logger), NewVersioned(b, 12, logger) }},
		{"versioned(snappy(mock))", func(b Cache) (Cache, Cache) {
			s := NewSnappy(b, logger)
			return NewVersioned(s, 1, logger), NewVersioned(s, 12, logger)
		}},
		{"lru(versioned(snappy(mock)))", func(b Cache) (Cache, Cache) {
			s := NewSnappy(b, logger)
			return lruOf(NewVersioned(s, 1, logger)), lruOf(NewVersioned(s, 12, logger))
		}},
		{"versioned(lru(snappy(mock)))", func(b Cache) (Cache, Cache) {
			l := lruOf(NewSnappy(b, logger))
			return NewVersioned(l, 1, logger), NewVersioned(l, 12, logger)
		}},
		{"snappy(versioned(lru(mock)))", func(b Cache) (Cache, Cache) {
			l := lruOf(b)
			return NewSnappy(NewVersioned(l, 1, logger), logger), NewSnappy(NewVersioned(l, 12, logger), logger)
		}},
	}
	keys := []string{"k", "2@k", "1@k", "12@k", "@", "", "k@1"}
	for si, stk := range stacks {
		for run := 0; run < runs; run++ {
			rnd := rand.New(rand.NewSource(seed*1000003 + int64(si)*7919 + int64(run)))
			back := NewMockCache()
			c1, c2 := stk.build(back)
			caches := []Cache{c1, c2}
			model := []map[string]verifEntry{{}, {}}
			var trace []string
			for step := 0; step < 25; step++ {
				cases++
				v := rnd.Intn(2)
				k := keys[rnd.Intn(len(keys))]
				ttl := time.Hour
				switch rnd.Intn(8) {
				case 0, 1:
					ttl = -time.Hour
				case 2, 3:
					ttl = 10 * time.Second
				}
				val := []byte(fmt.Sprintf("v%d-%d-%d\x00\xff", run, step, rnd.Intn(1000)))
				if rnd.Intn(8) == 0 {
					val = []byte{}
				}
				switch op := rnd.Intn(7); op {
				case 0:
					trace = append(trace, fmt.Sprintf("v%d.Set(%q,ttl=%v)", v, k, ttl))
					_ = caches[v].Set(ctx, k, val, ttl)
					model[v][k] = verifEntry{val: val, live: ttl > 0, short: ttl == 10*time.Second}
				case 1:
					trace = append(trace, fmt.Sprintf("v%d.SetAsync(%q,ttl=%v)", v, k, ttl))
					caches[v].SetAsync(k, val, ttl)
					model[v][k] = verifEntry{val: val, live: ttl > 0, short: ttl == 10*time.Second}
				case 2:
					trace = append(trace, fmt.Sprintf("v%d.Add(%q,ttl=%v)", v, k, ttl))
					err := caches[v].Add(ctx, k, val, ttl)
					wasLive := model[v][k].live
					if wasLive != (err != nil) {
						report(fmt.Sprintf("c19-add:%s", stk.name), fmt.Sprintf("Add err=%v but a live entry existed=%v; trace %v", err, wasLive, trace))
					}
					if !wasLive && err == nil {
						model[v][k] = verifEntry{val: val, live: ttl > 0, short: ttl == 10*time.Second}
					}
				case 6:
					// the backend's clock moves beyond the short time-to-live: short-lived entries are gone from the backend
					trace = append(trace, "clock+1m")
					back.Advance(time.Minute)
					for _, mv := range model {
						for kk, e := range mv {
							if e.live && e.short {
								e.live, e.soft = false, true
								mv[kk] = e
							}
						}
					}
				case 3:
					trace = append(trace, fmt.Sprintf("v%d.Delete(%q)", v, k))
					_ = caches[v].Delete(ctx, k)
					delete(model[v], k)
				case 4:
					trace = append(trace, fmt.Sprintf("v%d.SetMultiAsync(%q,%q)", v, k, "k"))
					caches[v].SetMultiAsync(map[string][]byte{k: val, "k": val}, ttl)
					model[v][k] = verifEntry{val: val, live: ttl > 0, short: ttl == 10*time.Second}
					model[v]["k"] = verifEntry{val: val, live: ttl > 0, short: ttl == 10*time.Second}
				default:
					got := caches[v].GetMulti(ctx, keys)
					trace = append(trace, fmt.Sprintf("v%d.GetMulti", v))
					for _, kk := range keys {
						m, has := model[v][kk]
						g, ok := got[kk]
						switch {
						case ok && !(has && (m.live || m.soft)):
							report(fmt.Sprintf("c19-stale:%s", stk.name), fmt.Sprintf("key %q returned %q although deleted/expired/never stored under this version; trace %v", kk, g, trace))
						case ok && !bytes.Equal(g, m.val):
							report(fmt.Sprintf("c19-wrong:%s", stk.name), fmt.Sprintf("key %q returned %q, most recently stored %q; trace %v", kk, g, m.val, trace))
						case !ok && has && m.live:
							report(fmt.Sprintf("c19-lost:%s", stk.name), fmt.Sprintf("key %q not returned although stored, live and never evicted; trace %v", kk, trace))
						}
					}
					for kk := range got {
						found := false
						for _, q := range keys {
							if q == kk {
								found = true
							}
						}
						if !found {
							report(fmt.Sprintf("c19-unasked:%s", stk.name), fmt.Sprintf("returned key %q that was not asked for; trace %v", kk, trace))
						}
					}
				}
			}
		}
	}
	fmt.Printf("BOUNDED-CASES name=C19_Stacks n=%d distinct=%d bound=%d wrapper stacks x %d random sequences of 25 operations (set/setasync/add/delete/setmulti/getmulti/clock advance, ttl in {+1h,10s,-1h}, backend clock advances of 1 min, 7 keys incl. version-like keys, two versions 1 and 12 sharing the lower layers), seed %d; reference model: last stored live value per (version,key)\n", cases, cases, len(stacks), runs, seed)
	if fails > 0 {
		t.Fatalf("%d mismatches", fails)
	}
}

func TestVerifBounded_C19_JumpHash(t *testing.T) {
	nkeys := 20000
	if os.Getenv("VERIF_TIER") == "thorough" {
		nkeys = 200000
	}
	cases, fails := 0, 0
	rnd := rand.New(rand.NewSource(7))
	for i := 0; i < nkeys; i++ {
		key := rnd.Uint64()
		if i < 16 {
			key = []uint64{0, 1, 1<<63 - 1, 1 << 63, 1<<64 - 1, 1 << 33, 1<<33 - 1, 1 << 32, 3, 5, 7, 11, 13, 17, 19, 23}[i]
		}
		prev := jumpHash(key, 1)
		if prev != 0 {
			fails++
			fmt.Printf("BOUNDED-VIOLATION case=c19-jump:key=%d:n=1 bucket %d\n", key, prev)
		}
		for n := 2; n <= 70; n++ {
			cases++
			cur := jumpHash(key, n)
			if cur < 0 || int(cur) >= n || (cur != prev && int(cur) != n-1) || cur != jumpHash(key, n) {
				fails++
				if fails <= 5 {
					fmt.Printf("BOUNDED-VIOLATION case=c19-jump:key=%d:n=%d bucket %d with %d servers but %d with %d\n", key, n, prev, n-1, cur, n)
				}
			}
			prev = cur
		}
	}
	// the selector picks by the naturally sorted list
	sel := MemcachedJumpHashSelector{}
	servers := []string{"127.0.0.1:11210", "127.0.0.1:1121", "127.0.0.1:1129", "127.0.0.1:11211"}
	if err := sel.SetServers(servers...); err != nil {
		t.Fatal(err)
	}
	sorted := []string{"127.0.0.1:1121", "127.0.0.1:1129", "127.0.0.1:11210", "127.0.0.1:11211"}
	for i := 0; i < 2000; i++ {
		cases++
		k := fmt.Sprintf("key-%d", i)
		a, err := sel.PickServer(k)
		want := sorted[jumpHash(xxhash.Sum64String(k), len(sorted))]
		if err != nil || a.String() != want {
			fails++
			if fails <= 5 {
				fmt.Printf("BOUNDED-VIOLATION case=c19-pick:%s picked %v err %v, expected %s (natural order, jump hash of xxhash)\n", k, a, err, want)
			}
		}
	}
	// every input order of small server lists whose natural order differs from the byte order: all clients agree, and
	// the placement is the one of the naturally sorted list
	for _, list := range [][]string{
		{"127.0.0.1:2", "127.0.0.1:10", "127.0.0.1:9"},
		{"10.0.0.2:11211", "10.0.0.10:11211", "10.0.0.1:11211"},
		{"127.0.0.1:1", "127.0.0.1:2", "127.0.0.1:10", "127.0.0.1:100"},
	} {
		natural := append([]string{}, list...)
		natsort.Sort(natural)
		perm := append([]string{}, list...)
		sort.Strings(perm)
		var permute func(k int)
		permute = func(k int) {
			if k == len(perm) {
				cases++
				s2 := MemcachedJumpHashSelector{}
				in := append([]string{}, perm...)
				if err := s2.SetServers(in...); err != nil {
					t.Fatal(err)
				}
				if fmt.Sprint(in) != fmt.Sprint(perm) {
					fails++
					fmt.Printf("BOUNDED-VIOLATION case=c19-pick-order:%v SetServers reordered the caller's slice to %v\n", perm, in)
				}
				for i := 0; i < 40; i++ {
					k := fmt.Sprintf("key-%d", i)
					a, err := s2.PickServer(k)
					want := natural[jumpHash(xxhash.Sum64String(k), len(natural))]
					if err != nil || a.String() != want {
						fails++
						if fails <= 5 {
							fmt.Printf("BOUNDED-VIOLATION case=c19-pick-order:%v:%s picked %v err %v, expected %s (placement must depend on the naturally sorted list %v only)\n", perm, k, a, err, want, natural)
						}
						break
					}
				}
				return
			}
			for i := k; i < len(perm); i++ {
				perm[k], perm[i] = perm[i], perm[k]
				permute(k + 1)
				perm[k], perm[i] = perm[i], perm[k]
			}
		}
		permute(0)
	}
	fmt.Printf("BOUNDED-CASES name=C19_JumpHash n=%d distinct=%d bound=%d keys (16 boundary + random) x 1..70 servers: in range, deterministic, appending a server moves a key only to it; 2000 keys through the selector with 4 servers; every input order of 3 small lists whose natural order differs from byte order\n", cases, cases, nkeys)
	if fails > 0 {
		t.Fatalf("%d mismatches", fails)
	}
}
