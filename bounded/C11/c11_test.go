// verif-pkg: ring
//
// Bounded stand-in / replay harness for C11 (NOT proof): DoUntilQuorum with scripted instance outcomes, every
// completion order, with and without request minimisation.
package ring

import (
	"context"
	"errors"
	"fmt"
	"os"
	"sort"
	"sync"
	"testing"
	"time"
)

func TestVerifBounded_C11_DoUntilQuorum(t *testing.T) {
	thorough := os.Getenv("VERIF_TIER") == "thorough"
	cases, fails := 0, 0
	report := func(id, msg string) {
		fails++
		if fails <= 5 {
			fmt.Printf("BOUNDED-VIOLATION case=%s %s\n", id, msg)
		}
	}
	type setup struct {
		name      string
		zones     []string // zone of each instance
		zoneAware bool
		maxErrors int
		maxZones  int
	}
	setups := []setup{
		{"3inst-tol1", []string{"", "", ""}, false, 1, 0},
		{"3inst-tol0", []string{"", "", ""}, false, 0, 0},
		{"4inst-tol2", []string{"", "", "", ""}, false, 2, 0},
		{"3zones-1each-tol1", []string{"a", "b", "c"}, true, 0, 1},
		{"2zones-2each-tol1", []string{"a", "a", "b", "b"}, true, 0, 1},
		{"3zones-mixed-tol1", []string{"a", "a", "b", "c"}, true, 0, 1},
		{"2zones-tol0", []string{"a", "b", "b"}, true, 0, 0},
	}
	for _, su := range setups {
		n := len(su.zones)
		for _, minimize := range []bool{false, true} {
			for _, keepCtx := range []bool{false, true} { // true: the variant that leaves the contexts of the returned calls alive
				for oc := 0; oc < 1<<n; oc++ { // bit i set: instance i fails
					perms := verifPermsC11(n)
					for pi, perm := range perms {
						if !thorough && n == 4 && pi%4 != 0 {
							continue
						}
						if !thorough && keepCtx && pi%2 != 0 {
							continue
						}
						if fails > 20 {
							continue // enough counterexamples: do not spend minutes on time-outs of a broken executor
						}
						cases++
						id := fmt.Sprintf("c11:%s:min=%v:keepctx=%v:fail=%04b:order=%v", su.name, minimize, keepCtx, oc, perm)
						var rs ReplicationSet
						for i, z := range su.zones {
							rs.Instances = append(rs.Instances, InstanceDesc{Id: fmt.Sprintf("i%d", i), Addr: fmt.Sprintf("i%d", i), Zone: z})
						}
						rs.MaxErrors, rs.MaxUnavailableZones, rs.ZoneAwarenessEnabled = su.maxErrors, su.maxZones, su.zoneAware
						var mu sync.Mutex
						calls := map[string]int{}
						cleaned := map[string]int{}
						ctxs := map[string]context.Context{}
						release := map[string]chan struct{}{}
						for _, in := range rs.Instances {
							release[in.Id] = make(chan struct{})
						}
						f := func(ctx context.Context, d *InstanceDesc) (string, error) {
							mu.Lock()
							calls[d.Id]++
							ctxs[d.Id] = ctx
							mu.Unlock()
							<-release[d.Id] // scripted completion, regardless of cancellation (late results must still be cleaned)
							idx := int(d.Id[1] - '0')
							if oc&(1<<idx) != 0 {
								if idx%2 == 0 {
									// a failure that merely looks like a cancellation (e.g. an upstream's cancelled call) is still a failure
									return "", fmt.Errorf("boom-%s: upstream closed: %w", d.Id, context.Canceled)
								}
								return "", errors.New("boom-" + d.Id)
							}
							return "res-" + d.Id, nil
						}
						type out struct {
							res []string
							err error
						}
						done := make(chan out, 1)
						go func() {
							cleanup := func(s string) {
								mu.Lock()
								cleaned[s]++
								mu.Unlock()
							}
							cfg := DoUntilQuorumConfig{MinimizeRequests: minimize, HedgingDelay: time.Hour}
							var res []string
							var err error
							if keepCtx {
								res, err = DoUntilQuorumWithoutSuccessfulContextCancellation(context.Background(), rs, cfg, func(ctx context.Context, d *InstanceDesc, _ context.CancelCauseFunc) (string, error) {
									return f(ctx, d)
								}, cleanup)
							} else {
								res, err = DoUntilQuorum(context.Background(), rs, cfg, f, cleanup)
							}
							done <- out{res, err}
						}()
						completed := map[string]bool{}
						var o out
						returned := false
						succ, failc := 0, 0
						zoneWaiting, zoneFailed := map[string]int{}, map[string]int{}
						for _, z := range su.zones {
							zoneWaiting[z]++
						}
						decided := false
						for step := 0; step < n && !returned; step++ {
							// next instance in the order that has been called and not completed
							var pick string
							deadline := time.Now().Add(3 * time.Second) // a started call shows up at once; the wait only runs out when the executor hangs
							for pick == "" && time.Now().Before(deadline) {
								mu.Lock()
								for _, idx := range perm {
									iid := fmt.Sprintf("i%d", idx)
									if calls[iid] > 0 && !completed[iid] {
										pick = iid
										break
									}
								}
								mu.Unlock()
								if pick == "" {
									select {
									case o = <-done:
										returned = true
									case <-time.After(200 * time.Microsecond):
									}
									if returned {
										break
									}
								}
							}
							if pick == "" {
								break
							}
							completed[pick] = true
							close(release[pick])
							idx := int(pick[1] - '0')
							z := su.zones[idx]
							zoneWaiting[z]--
							if oc&(1<<idx) != 0 {
								failc++
								zoneFailed[z]++
							} else {
								succ++
							}
							okNow, errNow := false, false
							if !su.zoneAware {
								okNow = succ >= n-su.maxErrors
								errNow = failc > su.maxErrors
							} else {
								zs := map[string]bool{}
								for _, zz := range su.zones {
									zs[zz] = true
								}
								good, bad := 0, 0
								for zz := range zs {
									if zoneFailed[zz] > 0 {
										bad++
									} else if zoneWaiting[zz] == 0 {
										good++
									}
								}
								okNow = good >= len(zs)-su.maxZones
								errNow = bad > su.maxZones
							}
							if okNow || errNow {
								decided = true
								select {
								case o = <-done:
									returned = true
								case <-time.After(2 * time.Second):
									report(id+":late", fmt.Sprintf("criterion met after %v (ok=%v err=%v) but DoUntilQuorum has not returned", completed, okNow, errNow))
								}
								if returned && (o.err == nil) != okNow {
									report(id+":verdict", fmt.Sprintf("returned err=%v although success criterion=%v failure criterion=%v after %v", o.err, okNow, errNow, completed))
								}
							} else {
								select {
								case o = <-done:
									returned = true
									report(id+":early", fmt.Sprintf("returned (%v, %v) before either criterion held; completed %v", o.res, o.err, completed))
								case <-time.After(300 * time.Microsecond):
								}
							}
						}
						if !returned {
							select {
							case o = <-done:
								returned = true
							case <-time.After(2 * time.Second):
								report(id+":hang", fmt.Sprintf("did not return; completed %v decided=%v", completed, decided))
							}
						}
						// results: only from successful completed calls; zone mode: only from complete failure-free zones
						if returned && o.err == nil {
							for _, r := range o.res {
								iid := r[4:]
								idx := int(iid[1] - '0')
								if !completed[iid] || oc&(1<<idx) != 0 {
									report(id+":result-origin", fmt.Sprintf("result %s does not come from a completed successful call", r))
								}
								if su.zoneAware && (zoneFailed[su.zones[idx]] > 0 || zoneWaiting[su.zones[idx]] > 0) {
									report(id+":result-zone", fmt.Sprintf("result %s comes from zone %q which is incomplete or failed", r, su.zones[idx]))
								}
							}
							if !su.zoneAware && len(o.res) < n-su.maxErrors {
								report(id+":result-count", fmt.Sprintf("%d results, need %d", len(o.res), n-su.maxErrors))
							}
						}
						// let every remaining call finish; every successful result that was not returned is cleaned exactly once
						for _, in := range rs.Instances {
							if !completed[in.Id] {
								close(release[in.Id])
							}
						}
						returnedSet := map[string]bool{}
						if returned && o.err == nil {
							for _, r := range o.res {
								returnedSet[r] = true
							}
						}
						okc := false
						for w := 0; w < 5000 && !okc; w++ {
							okc = true
							mu.Lock()
							for _, in := range rs.Instances {
								idx := int(in.Id[1] - '0')
								r := "res-" + in.Id
								if calls[in.Id] > 0 && oc&(1<<idx) == 0 && !returnedSet[r] && cleaned[r] != 1 {
									okc = false
								}
							}
							mu.Unlock()
							if !okc {
								time.Sleep(time.Millisecond)
							}
						}
						mu.Lock()
						var cs []string
						for k, v := range cleaned {
							cs = append(cs, fmt.Sprintf("%s x%d", k, v))
							if v > 1 || returnedSet[k] {
								report(id+":cleanup-twice-or-returned", fmt.Sprintf("%s cleaned %d times, returned=%v", k, v, returnedSet[k]))
							}
						}
						sort.Strings(cs)
						if !okc {
							report(id+":cleanup-missing", fmt.Sprintf("some successful unreturned result was not cleaned: cleaned=%v returned=%v calls=%v", cs, o.res, calls))
						}
						for k, c := range calls {
							if c > 1 {
								report(id+":called-twice", fmt.Sprintf("%s called %d times", k, c))
							}
						}
						// DoUntilQuorum cancels every context before returning; the variant that keeps contexts alive does so only
						// for the calls whose results it returned
						for k, cx := range ctxs {
							used := keepCtx && returnedSet["res-"+k]
							if returned && cx.Err() == nil && !used {
								report(id+":context", fmt.Sprintf("context of %s not cancelled after return although its result is not used (returned %v, err %v)", k, o.res, o.err))
							}
						}
						mu.Unlock()
					}
				}
			}
		}
	}
	fmt.Printf("BOUNDED-CASES name=C11_DoUntilQuorum n=%d distinct=%d bound=7 replication sets (<=4 instances, <=3 zones, tolerance 0..2) x minimisation on/off x both executors (all contexts cancelled on return / contexts of returned calls kept) x every failure vector (plain errors and errors wrapping context.Canceled) x completion orders (all; quick: a quarter for 4 instances); calls complete only when released\n", cases, cases)
	if fails > 0 {
		t.Fatalf("%d mismatches", fails)
	}
}

func verifPermsC11(n int) [][]int {
	var out [][]int
	var rec func(cur []int, used []bool)
	rec = func(cur []int, used []bool) {
		if len(cur) == n {
			out = append(out, append([]int{}, cur...))
			return
		}
		for i := 0; i < n; i++ {
			if !used[i] {
				used[i] = true
				rec(append(cur, i), used)
				used[i] = false
			}
		}
	}
	rec(nil, make([]bool, n))
	return out
}
