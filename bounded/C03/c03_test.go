// verif-pkg: ring
//
// Bounded stand-in / replay harness for C03 (NOT proof): CRDT laws of the real Merge on small descriptors.
package ring

import (
	"fmt"
	"math/rand"
	"os"
	"sort"
	"testing"
	"time"
)

// one content per (name, timestamp): everything but the LEFT flag is a function of (name, ts)
func verifC03Entry(name string, ts int64, left bool) InstanceDesc {
	base := map[string]uint32{"a": 10, "b": 20, "c": 30}[name]
	e := InstanceDesc{Addr: fmt.Sprintf("%s-%d", name, ts), Timestamp: ts, State: InstanceState(ts % 2), Zone: "z", Id: name,
		Tokens: []uint32{base + uint32(ts), base + uint32(ts) + 5}}
	if e.State == LEFT {
		e.State = ACTIVE
	}
	if left {
		e.State = LEFT
		e.Tokens = nil
	}
	return e
}

func verifC03Descs() []*Desc {
	var out []*Desc
	type ent struct {
		present bool
		ts      int64
		left    bool
	}
	opts := []ent{{false, 0, false}, {true, 1, false}, {true, 2, false}, {true, 2, true}, {true, 3, true}}
	for _, ea := range opts {
		for _, eb := range opts {
			d := NewDesc()
			if ea.present {
				d.Ingesters["a"] = verifC03Entry("a", ea.ts, ea.left)
			}
			if eb.present {
				d.Ingesters["b"] = verifC03Entry("b", eb.ts, eb.left)
			}
			out = append(out, d)
		}
	}
	return out
}

func verifC03Key(d *Desc) string {
	var names []string
	for n := range d.Ingesters {
		names = append(names, n)
	}
	sort.Strings(names)
	s := ""
	for _, n := range names {
		e := d.Ingesters[n]
		s += fmt.Sprintf("%s:{%s %d %v %v %s}", n, e.Addr, e.Timestamp, e.State, e.Tokens, e.Zone)
	}
	return s
}

func verifC03Clone(d *Desc) *Desc { return d.Clone().(*Desc) }

func verifC03Merge(a, b *Desc) (*Desc, *Desc) {
	r := verifC03Clone(a)
	ch, err := r.Merge(verifC03Clone(b), false)
	if err != nil {
		panic(err)
	}
	if ch == nil {
		return r, nil
	}
	return r, ch.(*Desc)
}

// Merges of descriptors whose instances claim the same token: the result must not depend on the merge direction or on
// map iteration order (the statement's commutativity and idempotence carry no proviso; only the convergence sentence
// excludes token conflicts). The expected owner is the statement of C05: a leaving instance loses to one that is not
// leaving, otherwise the smaller identifier wins.
func TestVerifBounded_C03_ConflictingTokens(t *testing.T) {
	cases, fails := 0, 0
	report := func(id, msg string) {
		fails++
		if fails <= 5 {
			fmt.Printf("BOUNDED-VIOLATION case=%s %s\n", id, msg)
		}
	}
	states := []InstanceState{ACTIVE, LEAVING, PENDING, JOINING}
	for _, sa := range states {
		for _, sb := range states {
			for _, names := range [][2]string{{"a", "b"}, {"b", "a"}, {"inst-10", "inst-9"}} {
				cases++
				id := fmt.Sprintf("c03:conflict:%s=%v:%s=%v", names[0], sa, names[1], sb)
				mk := func(n string, st InstanceState, own uint32) *Desc {
					d := NewDesc()
					d.Ingesters[n] = InstanceDesc{Addr: n, Timestamp: 100, State: st, Zone: "z", Id: n, Tokens: []uint32{7, own}}
					return d
				}
				a, b := mk(names[0], sa, 100), mk(names[1], sb, 200)
				want := names[0]
				switch {
				case sa == LEAVING && sb != LEAVING:
					want = names[1]
				case sb == LEAVING && sa != LEAVING:
					want = names[0]
				case names[1] < names[0]:
					want = names[1]
				}
				seen := map[string]bool{}
				for rep := 0; rep < 40; rep++ {
					ab, _ := verifC03Merge(a, b)
					ba, _ := verifC03Merge(b, a)
					seen[verifC03Key(ab)] = true
					seen[verifC03Key(ba)] = true
					if verifC03Key(ab) != verifC03Key(ba) {
						report(id+":commutative", fmt.Sprintf("M(a,b)=%s M(b,a)=%s", verifC03Key(ab), verifC03Key(ba)))
						break
					}
					abb, ch := verifC03Merge(ab, b)
					if verifC03Key(abb) != verifC03Key(ab) || ch != nil {
						report(id+":idempotent", fmt.Sprintf("M(M(a,b),b)=%s M(a,b)=%s", verifC03Key(abb), verifC03Key(ab)))
						break
					}
					owners := 0
					for n, e := range ab.Ingesters {
						for _, tk := range e.Tokens {
							if tk == 7 {
								owners++
								if n != want {
									report(id+":winner", fmt.Sprintf("token 7 went to %s, expected %s: %s", n, want, verifC03Key(ab)))
								}
							}
						}
					}
					if owners != 1 {
						report(id+":owners", fmt.Sprintf("token 7 has %d owners after the merge: %s", owners, verifC03Key(ab)))
					}
				}
				if len(seen) > 1 {
					report(id+":deterministic", fmt.Sprintf("%d different results for the same two descriptors", len(seen)))
				}
			}
		}
	}
	fmt.Printf("BOUNDED-CASES name=C03_ConflictingTokens n=%d distinct=%d bound=two single-instance descriptors sharing one token, every pair of states {ACTIVE, LEAVING, PENDING, JOINING} x 3 name orders, both merge directions, 40 repetitions each (map iteration order)\n", cases, cases)
	if fails > 0 {
		t.Fatalf("%d violations", fails)
	}
}

func TestVerifBounded_C03_RingDesc(t *testing.T) {
	descs := verifC03Descs()
	cases, fails := 0, 0
	report := func(id, msg string) {
		fails++
		if fails <= 5 {
			fmt.Printf("BOUNDED-VIOLATION case=%s %s\n", id, msg)
		}
	}
	for ai, a := range descs {
		for bi, b := range descs {
			cases++
			ab, ch := verifC03Merge(a, b)
			ba, _ := verifC03Merge(b, a)
			id := fmt.Sprintf("c03:a=%d:b=%d", ai, bi)
			if verifC03Key(ab) != verifC03Key(ba) {
				report(id+":commutative", fmt.Sprintf("a=%s b=%s M(a,b)=%s M(b,a)=%s", verifC03Key(a), verifC03Key(b), verifC03Key(ab), verifC03Key(ba)))
			}
			abb, ch2 := verifC03Merge(ab, b)
			if verifC03Key(abb) != verifC03Key(ab) || ch2 != nil {
				report(id+":idempotent", fmt.Sprintf("M(M(a,b),b)=%s M(a,b)=%s change=%v", verifC03Key(abb), verifC03Key(ab), ch2))
			}
			if ch == nil {
				if verifC03Key(ab) != verifC03Key(a) {
					report(id+":nochange", fmt.Sprintf("no change reported but %s became %s", verifC03Key(a), verifC03Key(ab)))
				}
			} else {
				ad, _ := verifC03Merge(a, ch)
				if verifC03Key(ad) != verifC03Key(ab) {
					report(id+":delta", fmt.Sprintf("M(a,change)=%s M(a,b)=%s change=%s", verifC03Key(ad), verifC03Key(ab), verifC03Key(ch)))
				}
			}
			for ci, c := range descs {
				if (ai+bi+ci)%3 != 0 && os.Getenv("VERIF_TIER") != "thorough" {
					continue
				}
				cases++
				l, _ := verifC03Merge(ab, c)
				bc, _ := verifC03Merge(b, c)
				r, _ := verifC03Merge(a, bc)
				if verifC03Key(l) != verifC03Key(r) {
					report(fmt.Sprintf("%s:c=%d:associative", id, ci), fmt.Sprintf("M(M(a,b),c)=%s M(a,M(b,c))=%s", verifC03Key(l), verifC03Key(r)))
				}
				// delta sufficiency for any replica that already contains a: r0 = M(c, a)
				if ch != nil {
					r0, _ := verifC03Merge(c, a)
					x, _ := verifC03Merge(r0, ch)
					y, _ := verifC03Merge(r0, b)
					if verifC03Key(x) != verifC03Key(y) {
						report(fmt.Sprintf("%s:c=%d:delta-superset", id, ci), fmt.Sprintf("M(r,change)=%s M(r,b)=%s", verifC03Key(x), verifC03Key(y)))
					}
				}
			}
		}
	}
	fmt.Printf("BOUNDED-CASES name=C03_RingDesc n=%d distinct=%d bound=descriptors over instances {a,b} with per-instance entries {absent, ts1, ts2, ts2-left, ts3-left} (one content per (instance,timestamp), no token conflicts): all pairs, triples (all in thorough, a third in quick)\n", cases, len(descs))
	if fails > 0 {
		t.Fatalf("%d mismatches", fails)
	}
}

func verifC03PKey(d *PartitionRingDesc) string {
	var ids []int
	for id := range d.Partitions {
		ids = append(ids, int(id))
	}
	sort.Ints(ids)
	s := ""
	for _, id := range ids {
		p := d.Partitions[int32(id)]
		s += fmt.Sprintf("p%d:{%v %d %v %d}", id, p.State, p.StateTimestamp, p.StateChangeLocked, p.StateChangeLockedTimestamp)
	}
	var os []string
	for o := range d.Owners {
		os = append(os, o)
	}
	sort.Strings(os)
	for _, o := range os {
		w := d.Owners[o]
		s += fmt.Sprintf("o%s:{%d %v %d}", o, w.OwnedPartition, w.State, w.UpdatedTimestamp)
	}
	return s
}

func TestVerifBounded_C03_PartitionRingDesc(t *testing.T) {
	seed := int64(1)
	fmt.Sscan(os.Getenv("VERIF_SEED"), &seed)
	rnd := rand.New(rand.NewSource(seed))
	n := 4000
	if os.Getenv("VERIF_TIER") == "thorough" {
		n = 60000
	}
	// one content per (entry, timestamp): state is a function of the timestamp, except for the deleted flag
	gen := func() *PartitionRingDesc {
		d := NewPartitionRingDesc()
		for id := int32(0); id < 2; id++ {
			if rnd.Intn(4) == 0 {
				continue
			}
			ts := int64(1 + rnd.Intn(3))
			lts := int64(rnd.Intn(3))
			st := PartitionState(1 + ts%3)
			if rnd.Intn(4) == 0 {
				st = PartitionDeleted
			}
			d.Partitions[id] = PartitionDesc{Id: id, Tokens: []uint32{uint32(id) + 1}, State: st, StateTimestamp: ts, StateChangeLocked: lts%2 == 1, StateChangeLockedTimestamp: lts}
		}
		for _, o := range []string{"x", "y"} {
			if rnd.Intn(3) == 0 {
				continue
			}
			ts := int64(1 + rnd.Intn(3))
			st := OwnerActive
			if rnd.Intn(4) == 0 {
				st = OwnerDeleted
			}
			d.Owners[o] = OwnerDesc{OwnedPartition: int32(ts % 2), State: st, UpdatedTimestamp: ts}
		}
		return d
	}
	merge := func(a, b *PartitionRingDesc) (*PartitionRingDesc, *PartitionRingDesc) {
		r := a.Clone().(*PartitionRingDesc)
		ch, err := r.Merge(b.Clone(), false)
		if err != nil {
			panic(err)
		}
		if ch == nil {
			return r, nil
		}
		return r, ch.(*PartitionRingDesc)
	}
	cases, fails := 0, 0
	report := func(id, msg string) {
		fails++
		if fails <= 5 {
			fmt.Printf("BOUNDED-VIOLATION case=%s %s\n", id, msg)
		}
	}
	for it := 0; it < n; it++ {
		cases++
		a, b, c := gen(), gen(), gen()
		ab, ch := merge(a, b)
		ba, _ := merge(b, a)
		id := fmt.Sprintf("c03p:%d", it)
		if verifC03PKey(ab) != verifC03PKey(ba) {
			report(id+":commutative", fmt.Sprintf("a=%s b=%s M(a,b)=%s M(b,a)=%s", verifC03PKey(a), verifC03PKey(b), verifC03PKey(ab), verifC03PKey(ba)))
		}
		abb, ch2 := merge(ab, b)
		if verifC03PKey(abb) != verifC03PKey(ab) || ch2 != nil {
			report(id+":idempotent", fmt.Sprintf("a=%s b=%s", verifC03PKey(a), verifC03PKey(b)))
		}
		l, _ := merge(ab, c)
		bc, _ := merge(b, c)
		r, _ := merge(a, bc)
		if verifC03PKey(l) != verifC03PKey(r) {
			report(id+":associative", fmt.Sprintf("a=%s b=%s c=%s", verifC03PKey(a), verifC03PKey(b), verifC03PKey(c)))
		}
		if ch == nil {
			if verifC03PKey(ab) != verifC03PKey(a) {
				report(id+":nochange", fmt.Sprintf("a=%s b=%s", verifC03PKey(a), verifC03PKey(b)))
			}
		} else {
			ad, _ := merge(a, ch)
			if verifC03PKey(ad) != verifC03PKey(ab) {
				report(id+":delta", fmt.Sprintf("a=%s b=%s change=%s M(a,change)=%s M(a,b)=%s", verifC03PKey(a), verifC03PKey(b), verifC03PKey(ch), verifC03PKey(ad), verifC03PKey(ab)))
			}
			r0, _ := merge(c, a)
			x, _ := merge(r0, ch)
			y, _ := merge(r0, b)
			if verifC03PKey(x) != verifC03PKey(y) {
				report(id+":delta-superset", fmt.Sprintf("a=%s b=%s c=%s", verifC03PKey(a), verifC03PKey(b), verifC03PKey(c)))
			}
		}
	}
	_ = time.Now
	fmt.Printf("BOUNDED-CASES name=C03_PartitionRingDesc n=%d distinct=%d bound=%d random triples of partition descriptors (2 partitions, 2 owners, timestamps 1..3, lock timestamps 0..2, deleted flags), seed %d\n", cases, cases, n, seed)
	if fails > 0 {
		t.Fatalf("%d mismatches", fails)
	}
}
