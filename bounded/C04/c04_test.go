// verif-pkg: ring
//
// Bounded stand-in / replay harness for C04 (NOT proof): removals, tombstones and delayed messages, on descriptors
// and through an isolated memberlist KV (messages delivered by hand).
package ring

import (
	"context"
	"fmt"
	"testing"
	"time"
)

func verifC04Add(d *Desc, id string, toks []uint32, st InstanceState, ts int64) {
	d.AddIngester(id, "addr", "z", toks, st, time.Unix(ts, 0), false, time.Time{}, nil)
	e := d.Ingesters[id]
	e.Timestamp = ts
	d.Ingesters[id] = e
}

func TestVerifBounded_C04_Descriptors(t *testing.T) {
	cases, fails := 0, 0
	report := func(id, msg string) {
		fails++
		if fails <= 5 {
			fmt.Printf("BOUNDED-VIOLATION case=%s %s\n", id, msg)
		}
	}
	removal := time.Unix(1000, 0)
	// every earlier message about the entry: timestamps before, or in the same second as, the removal; any state
	for _, ts := range []int64{1, 999, 1000} {
		for _, st := range []InstanceState{ACTIVE, LEAVING, PENDING, JOINING, LEFT} {
			for _, order := range []int{0, 1, 2} {
				cases++
				replica := NewDesc()
				verifC04Add(replica, "a", []uint32{1, 2}, ACTIVE, 500)
				verifC04Add(replica, "b", []uint32{3}, ACTIVE, 500)
				// local update removing "a" (what a CAS that drops the entry does)
				next := replica.Clone().(*Desc)
				delete(next.Ingesters, "a")
				change, err := replica.mergeWithTime(next, true, removal)
				if err != nil || change == nil {
					report("c04-desc-removal", fmt.Sprintf("removal reported change=%v err=%v", change, err))
					continue
				}
				ch := change.(*Desc)
				if e, ok := ch.Ingesters["a"]; !ok || e.State != LEFT || e.Timestamp != removal.Unix() || len(e.Tokens) != 0 {
					report("c04-desc-tombstone-forwarded", fmt.Sprintf("the change forwarded to peers is %v, expected a LEFT tombstone for a stamped %d", ch.Ingesters, removal.Unix()))
				}
				old := NewDesc()
				verifC04Add(old, "a", []uint32{1, 2}, st, ts)
				// another replica learns of the removal and the old message in either order, possibly duplicated
				other := NewDesc()
				verifC04Add(other, "a", []uint32{1, 2}, ACTIVE, 500)
				seqs := [][]*Desc{{ch, old}, {old, ch}, {old, ch, old, old}}
				for _, m := range seqs[order] {
					if _, err := other.Merge(m.Clone(), false); err != nil {
						t.Fatal(err)
					}
				}
				// a replica that holds a ring but has never heard of the entry (the tombstone overtook every earlier message)
				stranger := NewDesc()
				verifC04Add(stranger, "b", []uint32{3}, ACTIVE, 500)
				for _, m := range seqs[order] {
					if _, err := stranger.Merge(m.Clone(), false); err != nil {
						t.Fatal(err)
					}
				}
				for _, m := range []*Desc{old, old} {
					_, _ = replica.Merge(m.Clone(), false)
				}
				for name, d := range map[string]*Desc{"origin": replica, "peer": other, "peer that never saw the entry": stranger} {
					if x := d.Ingesters["a"]; x.State != LEFT || len(x.Tokens) != 0 {
						report(fmt.Sprintf("c04-desc-resurrected:ts=%d:state=%v:order=%d", ts, st, order), fmt.Sprintf("%s replica shows %v after an earlier message (ts %d) although the tombstone (ts %d) is retained", name, x, ts, removal.Unix()))
					}
					// readers: all tombstones stripped
					view := d.Clone().(*Desc)
					view.RemoveTombstones(time.Time{})
					if _, ok := view.Ingesters["a"]; ok {
						report("c04-desc-visible", fmt.Sprintf("%s: removed entry visible to readers", name))
					}
				}
				// retention: discarded only when older than the limit
				keep := replica.Clone().(*Desc)
				keep.RemoveTombstones(removal)
				if _, ok := keep.Ingesters["a"]; !ok {
					report("c04-desc-retention", "tombstone not older than the limit was discarded")
				}
				drop := replica.Clone().(*Desc)
				drop.RemoveTombstones(removal.Add(time.Second))
				if _, ok := drop.Ingesters["a"]; ok {
					report("c04-desc-retention", "tombstone older than the limit was kept")
				}
				if _, ok := drop.Ingesters["b"]; !ok {
					report("c04-desc-retention", "live entry discarded")
				}
			}
		}
	}
	fmt.Printf("BOUNDED-CASES name=C04_Descriptors n=%d distinct=%d bound=removal at second 1000; earlier messages with timestamps {1,999,1000} x 5 states x 3 delivery orders (incl. duplicates); origin replica, a peer that knew the entry and a peer that never saw it; retention limits around the removal\n", cases, cases)
	if fails > 0 {
		t.Fatalf("%d mismatches", fails)
	}
}

func TestVerifBounded_C04_KV(t *testing.T) {
	cases, fails := 0, 0
	report := func(id, msg string) {
		fails++
		if fails <= 5 {
			fmt.Printf("BOUNDED-VIOLATION case=%s %s\n", id, msg)
		}
	}
	ctx := context.Background()
	mkv, cl := verifNewKV(t, nil)
	key := "ring"
	now := time.Now()
	add := func(id string, toks []uint32) {
		_ = cl.CAS(ctx, key, func(in interface{}) (interface{}, bool, error) {
			d := GetOrCreateRingDesc(in)
			d.AddIngester(id, "addr", "z", toks, ACTIVE, now, false, time.Time{}, nil)
			return d, true, nil
		})
	}
	add("a", []uint32{1, 2})
	add("b", []uint32{3})
	seen := map[string]int{}
	wctx, wcancel := context.WithCancel(ctx)
	go cl.WatchKey(wctx, key, func(v interface{}) bool {
		if d, ok := v.(*Desc); ok {
			for id, e := range d.Ingesters {
				if e.State == LEFT {
					seen["tombstone:"+id]++
				}
			}
		}
		return true
	})
	time.Sleep(50 * time.Millisecond)
	// removal by a local update
	_ = cl.CAS(ctx, key, func(in interface{}) (interface{}, bool, error) {
		d := GetOrCreateRingDesc(in)
		delete(d.Ingesters, "a")
		return d, true, nil
	})
	check := func(step string) {
		cases++
		v, _ := cl.Get(ctx, key)
		d := v.(*Desc)
		if e, ok := d.Ingesters["a"]; ok {
			report("c04-kv-visible:"+step, fmt.Sprintf("reader sees removed entry %v", e))
		}
		if _, ok := d.Ingesters["b"]; !ok {
			report("c04-kv-lost:"+step, "live entry b missing")
		}
	}
	check("after-removal")
	// delayed, duplicated earlier messages about a
	for i, ts := range []int64{now.Unix() - 100, now.Unix() - 1, now.Unix() - 100} {
		old := NewDesc()
		old.AddIngester("a", "addr", "z", []uint32{1, 2}, ACTIVE, now, false, time.Time{}, nil)
		e := old.Ingesters["a"]
		e.Timestamp = ts
		old.Ingesters["a"] = e
		mkv.NotifyMsg(verifEncodeMsg(t, key, old))
		time.Sleep(30 * time.Millisecond)
		check(fmt.Sprintf("after-old-message-%d", i))
	}
	// the tombstone is part of the state pushed to peers
	cases++
	peer, pcl := verifNewKV(t, nil)
	peer.MergeRemoteState(mkv.LocalState(false), false)
	time.Sleep(30 * time.Millisecond)
	pv, _ := pcl.Get(ctx, key)
	if pv == nil {
		report("c04-kv-fullstate", "peer has no value after a full state exchange")
	} else if _, ok := pv.(*Desc).Ingesters["a"]; ok {
		report("c04-kv-fullstate", "peer shows the removed entry")
	}
	// and it blocks resurrection on the peer too
	old := NewDesc()
	old.AddIngester("a", "addr", "z", []uint32{1, 2}, ACTIVE, now, false, time.Time{}, nil)
	e := old.Ingesters["a"]
	e.Timestamp = now.Unix() - 5
	old.Ingesters["a"] = e
	peer.NotifyMsg(verifEncodeMsg(t, key, old))
	time.Sleep(30 * time.Millisecond)
	cases++
	pv, _ = pcl.Get(ctx, key)
	if _, ok := pv.(*Desc).Ingesters["a"]; ok {
		report("c04-kv-peer-resurrected", "an earlier message resurrected the entry on a peer that holds the tombstone")
	}
	wcancel()
	time.Sleep(20 * time.Millisecond)
	if seen["tombstone:a"] > 0 {
		report("c04-kv-watcher", "a watcher was shown a tombstone")
	}
	fmt.Printf("BOUNDED-CASES name=C04_KV n=%d distinct=%d bound=isolated memberlist KV with the ring codec: removal by CAS, 3 delayed/duplicated earlier messages, full-state push to a fresh peer, earlier message on the peer, one watcher\n", cases, cases)
	if fails > 0 {
		t.Fatalf("%d mismatches", fails)
	}
}

// Partition ring: removing partitions / owners by a local update leaves tombstones that are forwarded and that beat every
// earlier message, also when the update removes the LAST live partition and owner (the incoming value is then empty).
func TestVerifBounded_C04_PartitionRemovals(t *testing.T) {
	cases, fails := 0, 0
	report := func(id, msg string) {
		fails++
		if fails <= 5 {
			fmt.Printf("BOUNDED-VIOLATION case=%s %s\n", id, msg)
		}
	}
	removal := time.Unix(1000, 0)
	for _, nParts := range []int{1, 2} {
		for _, nOwners := range []int{1, 2} {
			for rmask := 1; rmask < 1<<(nParts+nOwners); rmask++ { // which partitions / owners the local update removes
				cases++
				id := fmt.Sprintf("c04p:parts=%d:owners=%d:remove=%b", nParts, nOwners, rmask)
				replica := NewPartitionRingDesc()
				for p := 0; p < nParts; p++ {
					replica.AddPartition(int32(p), PartitionActive, time.Unix(500, 0))
				}
				for o := 0; o < nOwners; o++ {
					replica.AddOrUpdateOwner(fmt.Sprintf("o%d", o), OwnerActive, int32(o%nParts), time.Unix(500, 0))
				}
				earlier := replica.Clone().(*PartitionRingDesc)
				// what a CAS function sees and returns: the value without tombstones, minus the removed entries
				next := replica.Clone().(*PartitionRingDesc)
				next.RemoveTombstones(time.Time{})
				var removedParts []int32
				var removedOwners []string
				for p := 0; p < nParts; p++ {
					if rmask&(1<<p) != 0 {
						next.RemovePartition(int32(p))
						removedParts = append(removedParts, int32(p))
					}
				}
				for o := 0; o < nOwners; o++ {
					if rmask&(1<<(nParts+o)) != 0 {
						next.RemoveOwner(fmt.Sprintf("o%d", o))
						removedOwners = append(removedOwners, fmt.Sprintf("o%d", o))
					}
				}
				change, err := replica.mergeWithTime(next, true, removal)
				if err != nil {
					t.Fatal(err)
				}
				peer := earlier.Clone().(*PartitionRingDesc)
				if change == nil {
					report(id+":no-change", fmt.Sprintf("the local update removed partitions %v and owners %v but reported no change (nothing is forwarded to peers)", removedParts, removedOwners))
				} else if _, err := peer.Merge(change.(*PartitionRingDesc).Clone(), false); err != nil {
					t.Fatal(err)
				}
				for name, d := range map[string]*PartitionRingDesc{"origin": replica, "peer": peer} {
					// an earlier message, delayed and duplicated
					_, _ = d.Merge(earlier.Clone(), false)
					_, _ = d.Merge(earlier.Clone(), false)
					view := d.Clone().(*PartitionRingDesc)
					view.RemoveTombstones(time.Time{})
					for _, p := range removedParts {
						if _, ok := view.Partitions[p]; ok {
							report(id+":partition-visible", fmt.Sprintf("%s: removed partition %d is visible to readers after an earlier message", name, p))
						}
						if e, ok := d.Partitions[p]; !ok || e.State != PartitionDeleted {
							report(id+":partition-tombstone", fmt.Sprintf("%s: no retained tombstone for removed partition %d (%v)", name, p, e))
						}
					}
					for _, o := range removedOwners {
						if _, ok := view.Owners[o]; ok {
							report(id+":owner-visible", fmt.Sprintf("%s: removed owner %s is visible to readers after an earlier message", name, o))
						}
						if e, ok := d.Owners[o]; !ok || e.State != OwnerDeleted {
							report(id+":owner-tombstone", fmt.Sprintf("%s: no retained tombstone for removed owner %s (%v)", name, o, e))
						}
					}
				}
			}
		}
	}
	fmt.Printf("BOUNDED-CASES name=C04_PartitionRemovals n=%d distinct=%d bound=partition rings of 1..2 partitions x 1..2 owners, every non-empty subset removed by one local update (incl. everything), origin and peer replica, duplicated earlier message\n", cases, cases)
	if fails > 0 {
		t.Fatalf("%d mismatches", fails)
	}
}
