// verif-pkg: ring
//
// Bounded stand-in / replay harness for C10 (NOT proof): DoBatchWithOptions with a scripted ring,
// scripted replica outcomes and every completion order, replica calls executed one at a time through
// the Go option (so the order is fully controlled).
package ring

import (
	"context"
	"errors"
	"fmt"
	"os"
	"sync"
	"testing"
	"time"
)

type verifBatchRing struct {
	sets map[uint32]ReplicationSet
	n    int
	rf   int
}

func (r *verifBatchRing) Get(key uint32, _ Operation, _ []InstanceDesc, _, _ []string) (ReplicationSet, error) {
	rs, ok := r.sets[key]
	if !ok {
		return ReplicationSet{}, errors.New("no set")
	}
	return rs, nil
}
func (r *verifBatchRing) ReplicationFactor() int { return r.rf }
func (r *verifBatchRing) InstancesCount() int    { return r.n }

type verifClientErr struct{ s string }

func (e verifClientErr) Error() string { return e.s }

func verifPerms(n int) [][]int {
	var out [][]int
	var rec func(cur []int, used []bool)
	rec = func(cur []int, used []bool) {
		if len(cur) == n {
			out = append(out, append([]int{}, cur...))
			return
		}
		for i := 0; i < n; i++ {
			if !used[i] {
				used[i] = true
				rec(append(cur, i), used)
				used[i] = false
			}
		}
	}
	rec(nil, make([]bool, n))
	return out
}

func TestVerifBounded_C10_Batch(t *testing.T) {
	thorough := os.Getenv("VERIF_TIER") == "thorough"
	cases, fails := 0, 0
	report := func(id, msg string) {
		fails++
		if fails <= 5 {
			fmt.Printf("BOUNDED-VIOLATION case=%s %s\n", id, msg)
		}
	}
	addrs := []string{"A", "B", "C"}
	mk := func(idx []int, maxErr int) ReplicationSet {
		var rs ReplicationSet
		for _, i := range idx {
			rs.Instances = append(rs.Instances, InstanceDesc{Addr: addrs[i], Id: addrs[i]})
		}
		rs.MaxErrors = maxErr
		return rs
	}
	type scenario struct {
		name string
		sets []ReplicationSet // per key
		n    int              // instances in the ring (0: 3)
		rf   int              // replication factor the ring reports (0: 3)
	}
	scenarios := []scenario{
		{"1key-3rep-tol1", []ReplicationSet{mk([]int{0, 1, 2}, 1)}, 0, 0},
		{"1key-3rep-tol0", []ReplicationSet{mk([]int{0, 1, 2}, 0)}, 0, 0},
		{"1key-1rep-tol0", []ReplicationSet{mk([]int{0}, 0)}, 0, 0},
		{"2keys-3rep-tol1", []ReplicationSet{mk([]int{0, 1, 2}, 1), mk([]int{0, 1, 2}, 1)}, 0, 0},
		{"2keys-mixed", []ReplicationSet{mk([]int{0, 1}, 0), mk([]int{1, 2, 0}, 1)}, 0, 0},
		{"2keys-disjointish", []ReplicationSet{mk([]int{0, 1, 2}, 1), mk([]int{2}, 0)}, 0, 0},
		{"3keys", []ReplicationSet{mk([]int{0, 1, 2}, 1), mk([]int{1, 2}, 1), mk([]int{0}, 0)}, 0, 0},
		// skewed batches: one instance serves more keys than the per-instance estimate keys*(RF+1)/instances the grouping
		// code sizes its lists with (4 and 6 instances in the ring, few of them used)
		{"skew-4inst-rf1", []ReplicationSet{mk([]int{0}, 0), mk([]int{0}, 0), mk([]int{1}, 0)}, 4, 1},
		{"skew-6inst-rf1", []ReplicationSet{mk([]int{1}, 0), mk([]int{0}, 0), mk([]int{1}, 0), mk([]int{2}, 0)}, 6, 1},
		{"skew-6inst-rf3", []ReplicationSet{mk([]int{0, 1, 2}, 1), mk([]int{0, 1, 2}, 1), mk([]int{0, 1, 2}, 1)}, 6, 3},
		{"skew-9inst-rf3", []ReplicationSet{mk([]int{0, 1, 2}, 1), mk([]int{2, 1, 0}, 1), mk([]int{0, 1}, 0), mk([]int{2, 0, 1}, 1)}, 9, 3},
	}
	outcomes := 3 // 0 ok, 1 client error, 2 server error
	for _, sc := range scenarios {
		ring := &verifBatchRing{sets: map[uint32]ReplicationSet{}, n: 3, rf: 3}
		if sc.n > 0 {
			ring.n, ring.rf = sc.n, sc.rf
		}
		keys := make([]uint32, len(sc.sets))
		used := map[string][]int{}
		for k, rs := range sc.sets {
			keys[k] = uint32(k)
			ring.sets[uint32(k)] = rs
			for _, in := range rs.Instances {
				used[in.Addr] = append(used[in.Addr], k)
			}
		}
		var insts []string
		for _, a := range addrs {
			if len(used[a]) > 0 {
				insts = append(insts, a)
			}
		}
		ni := len(insts)
		total := 1
		for i := 0; i < ni; i++ {
			total *= outcomes
		}
		for oc := 0; oc < total; oc++ {
			res := map[string]error{}
			x := oc
			for _, a := range insts {
				switch x % outcomes {
				case 1:
					res[a] = verifClientErr{"client-" + a}
				case 2:
					res[a] = errors.New("server-" + a)
				}
				x /= outcomes
			}
			for pi, perm := range verifPerms(ni) {
				if !thorough && ni == 3 && len(sc.sets) > 1 && pi%2 == 1 {
					continue
				}
				if fails > 20 {
					continue // enough counterexamples: every further failing case costs seconds of time-outs
				}
				cases++
				id := fmt.Sprintf("c10:%s:outcomes=%d:order=%v", sc.name, oc, perm)
				var mu sync.Mutex
				calls := map[string][][]int{}
				cleanups := 0
				var pending []func()
				var pmu sync.Mutex
				goOpt := func(f func()) {
					pmu.Lock()
					pending = append(pending, f)
					pmu.Unlock()
				}
				ctx, cancel := context.WithCancel(context.Background())
				resCh := make(chan error, 2)
				go func() {
					resCh <- DoBatchWithOptions(ctx, Write, ring, keys, func(d InstanceDesc, idx []int) error {
						mu.Lock()
						calls[d.Addr] = append(calls[d.Addr], append([]int{}, idx...))
						mu.Unlock()
						return res[d.Addr]
					}, DoBatchOptions{Cleanup: func() { mu.Lock(); cleanups++; mu.Unlock() }, IsClientError: func(e error) bool { _, ok := e.(verifClientErr); return ok }, Go: goOpt})
				}()
				// wait until all replica closures and the cleanup waiter have been handed over
				deadline := time.Now().Add(2 * time.Second)
				for {
					pmu.Lock()
					n := len(pending)
					pmu.Unlock()
					if n == ni+1 || time.Now().After(deadline) {
						break
					}
					time.Sleep(50 * time.Microsecond)
				}
				pmu.Lock()
				fs := append([]func(){}, pending...)
				pmu.Unlock()
				if len(fs) != ni+1 {
					report(id+":spawn", fmt.Sprintf("%d closures handed to Go, expected %d replica calls + 1 cleanup waiter", len(fs), ni+1))
					cancel()
					continue
				}
				go fs[ni]() // cleanup waiter
				// which replica closure belongs to which instance is unknown: closures are in map order; run them in
				// the permuted order and recompute the expectation from the calls actually observed.
				succ := make([]int, len(sc.sets))
				failC := make([]int, len(sc.sets))
				failS := make([]int, len(sc.sets))
				answered := make([]int, len(sc.sets))
				decidedErr, decidedOK := false, false
				var got error
				returned := false
				returns := 0
				for step, fi := range perm {
					before := map[string]int{}
					mu.Lock()
					for a, c := range calls {
						before[a] = len(c)
					}
					mu.Unlock()
					doneCh := make(chan struct{})
					go func() { fs[fi](); close(doneCh) }()
					select {
					case <-doneCh:
					case <-time.After(2 * time.Second):
						report(id+":blocked", "a replica goroutine is blocked inside the batch tracker (a second signal on a full channel?)")
						fmt.Printf("BOUNDED-CASES name=C10_Batch n=%d distinct=%d bound=aborted after a blocked replica goroutine\n", cases, cases)
						t.Fatalf("blocked")
					}
					var who string
					mu.Lock()
					for a, c := range calls {
						if len(c) > before[a] {
							who = a
						}
					}
					mu.Unlock()
					for _, k := range used[who] {
						answered[k]++
						switch res[who].(type) {
						case nil:
							succ[k]++
						case verifClientErr:
							failC[k]++
						default:
							failS[k]++
						}
					}
					allQuorum := true
					for k, rs := range sc.sets {
						minS := len(rs.Instances) - rs.MaxErrors
						if succ[k] < minS {
							allQuorum = false
						}
						if failC[k] > rs.MaxErrors || failS[k] > rs.MaxErrors || (answered[k] == len(rs.Instances) && succ[k] < minS) {
							decidedErr = true
						}
					}
					if allQuorum {
						decidedOK = true
					}
					if (decidedErr || decidedOK) && !returned {
						select {
						case got = <-resCh:
							returned = true
							returns++
						case <-time.After(2 * time.Second):
							report(id+":late", fmt.Sprintf("outcome decided after step %d (err=%v ok=%v) but DoBatch has not returned", step, decidedErr, decidedOK))
						}
					} else if !returned {
						select {
						case got = <-resCh:
							returned = true
							returns++
							report(id+":early", fmt.Sprintf("returned %v after step %d before the outcome was decided", got, step))
						default:
						}
					}
				}
				if !returned {
					select {
					case got = <-resCh:
						returns++
					case <-time.After(2 * time.Second):
						report(id+":hang", "all replica calls returned but DoBatch did not")
					}
				}
				select {
				case <-resCh:
					returns++
				default:
				}
				cancel()
				wantOK := true
				for k, rs := range sc.sets {
					if succ[k] < len(rs.Instances)-rs.MaxErrors {
						wantOK = false
					}
				}
				if wantOK != (got == nil) {
					report(id+":result", fmt.Sprintf("returned %v; every key has quorum=%v (succ=%v)", got, wantOK, succ))
				}
				if got != nil {
					found := false
					for _, e := range res {
						if e != nil && e == got {
							found = true
						}
					}
					if !found {
						report(id+":foreign-error", fmt.Sprintf("returned error %v was not returned by any replica", got))
					}
				}
				if returns != 1 {
					report(id+":returns", fmt.Sprintf("%d results", returns))
				}
				time.Sleep(200 * time.Microsecond)
				for i := 0; i < 200; i++ {
					mu.Lock()
					c := cleanups
					mu.Unlock()
					if c >= 1 {
						break
					}
					time.Sleep(time.Millisecond)
				}
				mu.Lock()
				if cleanups != 1 {
					report(id+":cleanup", fmt.Sprintf("cleanup called %d times", cleanups))
				}
				for _, a := range insts {
					if len(calls[a]) != 1 || fmt.Sprint(calls[a][0]) != fmt.Sprint(used[a]) {
						report(id+":indexes", fmt.Sprintf("replica %s called with %v, expected once with %v", a, calls[a], used[a]))
					}
				}
				mu.Unlock()
			}
		}
	}
	// empty key list: must return (nil) and clean up once
	for _, cancelled := range []bool{false, true} {
		cases++
		cleanups := 0
		ctx, cancel := context.WithCancel(context.Background())
		if cancelled {
			cancel()
		}
		resCh := make(chan error, 1)
		go func() {
			resCh <- DoBatchWithOptions(ctx, Write, &verifBatchRing{n: 3}, nil, func(InstanceDesc, []int) error { return nil }, DoBatchOptions{Cleanup: func() { cleanups++ }})
		}()
		select {
		case <-resCh:
		case <-time.After(2 * time.Second):
			report(fmt.Sprintf("c10:empty-keys:cancelled=%v", cancelled), "DoBatchWithOptions with an empty key list does not return although no replica call is outstanding")
		}
		cancel()
	}
	fmt.Printf("BOUNDED-CASES name=C10_Batch n=%d distinct=%d bound=11 scripted rings (<=4 keys, <=3 replicas used out of 3..9 instances, tolerance 0..1, incl. skewed batches where one instance serves more keys than the grouping code's per-instance estimate) x every outcome vector {ok, client error, server error}^replicas x completion orders (all; quick: half for the larger rings), replica calls run one at a time; plus the empty key list\n", cases, cases)
	if fails > 0 {
		t.Fatalf("%d mismatches", fails)
	}
}
