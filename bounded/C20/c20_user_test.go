// verif-pkg: user
//
// Bounded stand-in / replay harness for C20 transport (NOT proof).
package user

import (
	"context"
	"fmt"
	"net/http"
	"testing"

	"google.golang.org/grpc/metadata"
)

func TestVerifBounded_C20_Transport(t *testing.T) {
	ids := []string{"a", "tenant-1", "a|b", "a:k=v", "x|y:m=1", "  spaced ", "UPPER", "ü", "a\tb"}
	cases, fails := 0, 0
	report := func(id, msg string) {
		fails++
		if fails <= 5 {
			fmt.Printf("BOUNDED-VIOLATION case=%s %s\n", id, msg)
		}
	}
	for _, id := range ids {
		for hops := 1; hops <= 4; hops++ {
			for mask := 0; mask < 1<<hops; mask++ { // bit i: hop i is HTTP (0) or gRPC (1)
				cases++
				ctx := InjectOrgID(context.Background(), id)
				ok := true
				for h := 0; h < hops && ok; h++ {
					if mask&(1<<h) == 0 {
						req, _ := http.NewRequest("GET", "http://x/", nil)
						if err := InjectOrgIDIntoHTTPRequest(ctx, req); err != nil {
							report(fmt.Sprintf("c20-http-inject:%q", id), err.Error())
							ok = false
							break
						}
						got, nctx, err := ExtractOrgIDFromHTTPRequest(req)
						if err != nil || got != id {
							report(fmt.Sprintf("c20-http-extract:%q", id), fmt.Sprintf("got %q err %v", got, err))
							ok = false
							break
						}
						ctx = nctx
					} else {
						octx, err := InjectIntoGRPCRequest(ctx)
						if err != nil {
							report(fmt.Sprintf("c20-grpc-inject:%q", id), err.Error())
							ok = false
							break
						}
						md, _ := metadata.FromOutgoingContext(octx)
						ictx := metadata.NewIncomingContext(context.Background(), md)
						got, nctx, err := ExtractFromGRPCRequest(ictx)
						if err != nil || got != id {
							report(fmt.Sprintf("c20-grpc-extract:%q", id), fmt.Sprintf("got %q err %v", got, err))
							ok = false
							break
						}
						ctx = nctx
					}
				}
				if ok {
					if got, err := ExtractOrgID(ctx); err != nil || got != id {
						report(fmt.Sprintf("c20-chain:%q", id), fmt.Sprintf("after %d hops got %q err %v", hops, got, err))
					}
				}
			}
		}
	}
	// requests without an id are rejected, never defaulted
	cases += 6
	if _, err := ExtractOrgID(context.Background()); err != ErrNoOrgID {
		report("c20-missing-ctx", fmt.Sprint(err))
	}
	req, _ := http.NewRequest("GET", "http://x/", nil)
	if id, _, err := ExtractOrgIDFromHTTPRequest(req); err != ErrNoOrgID || id != "" {
		report("c20-missing-http", fmt.Sprintf("%q %v", id, err))
	}
	if err := InjectOrgIDIntoHTTPRequest(context.Background(), req); err != ErrNoOrgID {
		report("c20-missing-http-inject", fmt.Sprint(err))
	}
	if id, _, err := ExtractFromGRPCRequest(context.Background()); err != ErrNoOrgID || id != "" {
		report("c20-missing-grpc", fmt.Sprintf("%q %v", id, err))
	}
	if id, _, err := ExtractFromGRPCRequest(metadata.NewIncomingContext(context.Background(), metadata.MD{"x-scope-orgid": []string{"a", "b"}})); err == nil {
		report("c20-grpc-two-values", fmt.Sprintf("accepted %q from two header values", id))
	}
	if _, err := InjectIntoGRPCRequest(context.Background()); err != ErrNoOrgID {
		report("c20-missing-grpc-inject", fmt.Sprint(err))
	}
	// a different id already present is an error, never silently replaced
	req2, _ := http.NewRequest("GET", "http://x/", nil)
	req2.Header.Set(OrgIDHeaderName, "other")
	if err := InjectOrgIDIntoHTTPRequest(InjectOrgID(context.Background(), "a"), req2); err != ErrDifferentOrgIDPresent {
		report("c20-http-different", fmt.Sprint(err))
	}
	octx := metadata.NewOutgoingContext(InjectOrgID(context.Background(), "a"), metadata.MD{"x-scope-orgid": []string{"other"}})
	if _, err := InjectIntoGRPCRequest(octx); err != ErrDifferentOrgIDPresent {
		report("c20-grpc-different", fmt.Sprint(err))
	}
	fmt.Printf("BOUNDED-CASES name=C20_Transport n=%d distinct=%d bound=%d ids x chains of 1..4 hops, each hop HTTP or gRPC (all 2^h mixes) + missing/duplicate/different-id cases\n", cases, cases, len(ids))
	if fails > 0 {
		t.Fatalf("%d mismatches", fails)
	}
}
