// verif-pkg: tenant
//
// Bounded stand-in / replay harness for C20 (NOT proof): exhaustive over short strings.
package tenant

import (
	"context"
	"fmt"
	"os"
	"sort"
	"strings"
	"testing"

	"github.com/grafana/dskit/user"
)

func verifSafe(c byte) bool {
	return (c >= 'a' && c <= 'z') || (c >= 'A' && c <= 'Z') || (c >= '0' && c <= '9') || strings.IndexByte("!-_.*'()", c) >= 0
}

func verifAccepted(s string) bool {
	for i := 0; i < len(s); i++ {
		if !verifSafe(s[i]) {
			return false
		}
	}
	return len(s) <= 150 && s != "." && s != ".."
}

func verifTrim(p string) string {
	if i := strings.IndexByte(p, ':'); i >= 0 {
		return p[:i]
	}
	return p
}

func TestVerifBounded_C20_Resolvers(t *testing.T) {
	maxLen := 4
	if os.Getenv("VERIF_TIER") == "thorough" {
		maxLen = 5
	}
	alpha := []byte{'a', 'b', '.', '|', ':', '=', '/', '\\', 0x80, ' ', '!', 0}
	cases, fails := 0, 0
	report := func(id, msg string) {
		fails++
		if fails <= 5 {
			fmt.Printf("BOUNDED-VIOLATION case=%s %s\n", id, msg)
		}
	}
	// all 256 single bytes: the character table
	for c := 0; c < 256; c++ {
		cases++
		s := string([]byte{byte(c)})
		if (ValidTenantID(s) == nil) != verifAccepted(s) {
			report(fmt.Sprintf("c20-char:%d", c), fmt.Sprintf("ValidTenantID(%q) accepted=%v, documented set says %v", s, ValidTenantID(s) == nil, verifAccepted(s)))
		}
	}
	// all pairs of bytes, and every code point up to U+FFFF (plus a sample of the astral planes) in its UTF-8 encoding,
	// alone and between safe characters: multi-byte characters are never safe, whatever their low byte is
	for c := 0; c < 65536; c++ {
		cases++
		s := string([]byte{byte(c >> 8), byte(c)})
		if (ValidTenantID(s) == nil) != verifAccepted(s) {
			report(fmt.Sprintf("c20-pair:%q", s), fmt.Sprintf("ValidTenantID(%q) accepted=%v, documented set says %v", s, ValidTenantID(s) == nil, verifAccepted(s)))
		}
	}
	for r := rune(0x80); r <= 0x10FFFF; r++ {
		if r > 0xFFFF && r%257 != 0 {
			continue
		}
		if r >= 0xD800 && r <= 0xDFFF {
			continue
		}
		for _, s := range []string{string(r), "a" + string(r) + "b"} {
			cases++
			if ValidTenantID(s) == nil {
				report(fmt.Sprintf("c20-rune:U+%04X", r), fmt.Sprintf("ValidTenantID(%q) accepted an identifier with a character outside the documented safe set", s))
			}
		}
	}
	for _, n := range []int{149, 150, 151} {
		cases++
		s := strings.Repeat("a", n)
		if (ValidTenantID(s) == nil) != (n <= 150) {
			report(fmt.Sprintf("c20-len:%d", n), "length limit")
		}
	}
	var rec func(buf []byte)
	check := func(s string) {
		cases++
		if (ValidTenantID(s) == nil) != verifAccepted(s) {
			report(fmt.Sprintf("c20-valid:%q", s), "ValidTenantID disagrees with the documented rule")
		}
		ctx := user.InjectOrgID(context.Background(), s)
		one, err1 := TenantID(ctx)
		many, errN := TenantIDs(ctx)
		// oracle
		parts := strings.Split(s, "|")
		set := map[string]bool{}
		allValid := true
		for _, p := range parts {
			tp := verifTrim(p)
			if !verifAccepted(tp) {
				allValid = false
			}
			set[tp] = true
		}
		var want []string
		for k := range set {
			want = append(want, k)
		}
		sort.Strings(want)
		if allValid != (errN == nil) {
			report(fmt.Sprintf("c20-multi-accept:%q", s), fmt.Sprintf("TenantIDs err=%v, all parts valid=%v", errN, allValid))
		}
		if errN == nil && fmt.Sprint(many) != fmt.Sprint(want) {
			report(fmt.Sprintf("c20-multi-list:%q", s), fmt.Sprintf("TenantIDs=%q want sorted duplicate-free %q", many, want))
		}
		// single-tenant: succeeds only if all supplied ids denote the same tenant; agreement with multi
		if err1 == nil {
			if !verifAccepted(one) {
				report(fmt.Sprintf("c20-single-accept:%q", s), fmt.Sprintf("TenantID returned unaccepted id %q", one))
			}
			if len(set) != 1 || !set[one] {
				report(fmt.Sprintf("c20-single-same:%q", s), fmt.Sprintf("TenantID=%q although parts denote %q", one, want))
			}
			if errN != nil || len(many) != 1 || many[0] != one {
				report(fmt.Sprintf("c20-agree:%q", s), fmt.Sprintf("TenantID=%q but TenantIDs=%q err=%v", one, many, errN))
			}
		} else if errN == nil && len(many) == 1 {
			report(fmt.Sprintf("c20-agree2:%q", s), fmt.Sprintf("TenantIDs=%q but TenantID fails with %v", many, err1))
		}
	}
	rec = func(buf []byte) {
		check(string(buf))
		if len(buf) == maxLen {
			return
		}
		for _, c := range alpha {
			rec(append(buf, c))
		}
	}
	rec(nil)
	// missing id is rejected by both
	if _, err := TenantID(context.Background()); err != user.ErrNoOrgID {
		report("c20-missing-single", fmt.Sprint(err))
	}
	if _, err := TenantIDs(context.Background()); err != user.ErrNoOrgID {
		report("c20-missing-multi", fmt.Sprint(err))
	}
	fmt.Printf("BOUNDED-CASES name=C20_Resolvers n=%d distinct=%d bound=all byte strings of length<=%d over a %d-byte alphabet (incl. separators, NUL, 0x80) + all 256 single bytes + all byte pairs + every code point up to U+FFFF in UTF-8 + lengths 149..151; oracles transcribed from the property statement\n", cases, cases, maxLen, len(alpha))
	if fails > 0 {
		t.Fatalf("%d mismatches", fails)
	}
}
