// verif-pkg: ring
//
// Bounded stand-in / replay harness for C09 (NOT proof): the store rejects exactly one write of the running lifecycler,
// the one that would publish a state transition; a later heartbeat must publish the remembered state.
package ring

import (
	"context"
	"errors"
	"fmt"
	"sync"
	"testing"
	"time"

	"github.com/go-kit/log"

	"github.com/grafana/dskit/kv"
	"github.com/grafana/dskit/kv/consul"
	"github.com/grafana/dskit/services"
)

// verifRejectOnce rejects the first compare-and-swap whose result would store instance id in state target
// (the callback runs, as it does when a real store refuses the conditional write afterwards).
type verifRejectOnce struct {
	kv.Client
	mu       sync.Mutex
	id       string
	target   InstanceState
	rejected int
}

func (f *verifRejectOnce) CAS(ctx context.Context, key string, fn func(in interface{}) (interface{}, bool, error)) error {
	return f.Client.CAS(ctx, key, func(in interface{}) (interface{}, bool, error) {
		out, retry, err := fn(in)
		if d, ok := out.(*Desc); ok && d != nil && err == nil {
			f.mu.Lock()
			first := f.rejected == 0
			if e, ok := d.Ingesters[f.id]; ok && e.State == f.target && first {
				f.rejected++
				f.mu.Unlock()
				return nil, false, errors.New("verif: store rejects this write")
			}
			f.mu.Unlock()
		}
		return out, retry, err
	})
}

func TestVerifBounded_C09_WriteFaults(t *testing.T) {
	cases, fails := 0, 0
	report := func(id, msg string) {
		fails++
		if fails <= 5 {
			fmt.Printf("BOUNDED-VIOLATION case=%s %s\n", id, msg)
		}
	}
	ctx := context.Background()
	for _, observe := range []time.Duration{30 * time.Millisecond, 80 * time.Millisecond} {
		// (1) joining with an observe period: the JOINING -> ACTIVE write is rejected once
		cases++
		tag := fmt.Sprintf("c09:reject-active-write:observe=%v", observe)
		inner, closer := consul.NewInMemoryClient(GetCodec(), log.NewNopLogger(), nil)
		store := &verifRejectOnce{Client: inner, id: "me", target: ACTIVE}
		cfg := verifLifecyclerCfg(store, "me", 4, "")
		cfg.ObservePeriod = observe
		lc, err := NewLifecycler(cfg, nil, "test", "ring", true, log.NewNopLogger(), nil)
		if err != nil {
			t.Fatal(err)
		}
		_ = services.StartAndAwaitRunning(ctx, lc)
		if !verifAwaitState(inner, "me", ACTIVE, 15*time.Second) {
			v, _ := inner.Get(ctx, "ring")
			st := "absent"
			if d, ok := v.(*Desc); ok && d != nil {
				st = d.Ingesters["me"].State.String()
			}
			report(tag, fmt.Sprintf("one rejected write (%d injected) and the ring never shows the instance ACTIVE: ring state %s, lifecycler state %v", store.rejected, st, lc.GetState()))
		} else if v, _ := inner.Get(ctx, "ring"); len(v.(*Desc).Ingesters["me"].Tokens) != 4 {
			report(tag+":tokens", fmt.Sprintf("ACTIVE with %d tokens", len(v.(*Desc).Ingesters["me"].Tokens)))
		}
		if store.rejected != 1 {
			report(tag+":vacuous", fmt.Sprintf("%d writes rejected, expected exactly one", store.rejected))
		}
		_ = services.StopAndAwaitTerminated(ctx, lc)
		closer.Close()
	}
	fmt.Printf("BOUNDED-CASES name=C09_WriteFaults n=%d distinct=%d bound=one lifecycler joining with an observe period (30 ms, 80 ms), the store rejects exactly the first write that would publish ACTIVE; heartbeat 20 ms, 3 s to recover\n", cases, cases)
	if fails > 0 {
		t.Fatalf("%d violations", fails)
	}
}
