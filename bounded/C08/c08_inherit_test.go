// verif-pkg: ring
//
// Bounded stand-in / replay harness for C08 (NOT proof): tokens inherited from the ring are kept as they are by every
// heartbeat, also when the instance restarts from a JOINING entry (it goes back to PENDING locally and joins later, so
// several heartbeats are written before it owns its tokens in memory).
package ring

import (
	"context"
	"fmt"
	"testing"
	"time"

	"github.com/go-kit/log"

	"github.com/grafana/dskit/kv/consul"
	"github.com/grafana/dskit/services"
)

func TestVerifBounded_C08_InheritedTokensAcrossHeartbeats(t *testing.T) {
	cases, fails := 0, 0
	ctx := context.Background()
	for _, left := range []InstanceState{JOINING, ACTIVE, LEAVING, PENDING} {
		cases++
		tag := fmt.Sprintf("c08:inherited-tokens:left=%v", left)
		store, closer := consul.NewInMemoryClient(GetCodec(), log.NewNopLogger(), nil)
		inherited := []uint32{100, 400, 700}
		_ = store.CAS(ctx, "ring", func(in interface{}) (interface{}, bool, error) {
			d := NewDesc()
			d.Ingesters["me"] = InstanceDesc{Addr: "127.0.0.1:1", Timestamp: time.Now().Unix() - 30, State: left, Tokens: inherited, Zone: "z1", RegisteredTimestamp: time.Now().Add(-time.Hour).Unix(), Id: "me"}
			return d, true, nil
		})
		w := verifWatch(ctx, store, "ring")
		cfg := verifLifecyclerCfg(store, "me", 3, "")
		cfg.JoinAfter = 300 * time.Millisecond // several heartbeats (20 ms) happen before the join
		lc, err := NewLifecycler(cfg, nil, "test", "ring", true, log.NewNopLogger(), nil)
		if err != nil {
			t.Fatal(err)
		}
		_ = services.StartAndAwaitRunning(ctx, lc)
		verifAwaitState(store, "me", ACTIVE, 15*time.Second)
		time.Sleep(50 * time.Millisecond)
		w.mu.Lock()
		for n, d := range w.snaps {
			e, ok := d.Ingesters["me"]
			if !ok {
				continue
			}
			if fmt.Sprint(e.Tokens) != fmt.Sprint(inherited) {
				fails++
				if fails <= 5 {
					fmt.Printf("BOUNDED-VIOLATION case=%s ring version %d shows the instance in state %v with tokens %v: the tokens inherited from the ring were %v\n", tag, n, e.State, e.Tokens, inherited)
				}
				break
			}
		}
		w.mu.Unlock()
		_ = services.StopAndAwaitTerminated(ctx, lc)
		closer.Close()
	}
	fmt.Printf("BOUNDED-CASES name=C08_InheritedTokens n=%d distinct=%d bound=restart from a ring entry in JOINING/ACTIVE/LEAVING/PENDING with 3 tokens, join delayed by 300 ms with a 20 ms heartbeat: every observed ring version keeps the inherited tokens\n", cases, cases)
	if fails > 0 {
		t.Fatalf("%d violations", fails)
	}
}
