// verif-pkg: ring
//
// Bounded stand-in / replay harness for C08 (NOT proof): a compare-and-swap conflict while an instance joins. Two real
// lifecyclers share one in-memory store and use a deterministic "lowest free tokens" generator; the second one registers
// its tokens after the first one has chosen its own but before the first one's write: the first one's write is refused
// and retried against the new ring version, and must not publish tokens that now belong to the other instance.
package ring

import (
	"context"
	"fmt"
	"sort"
	"sync"
	"testing"
	"time"

	"github.com/go-kit/log"

	"github.com/grafana/dskit/kv/consul"
	"github.com/grafana/dskit/services"
)

type verifLowestFree struct {
	once sync.Once
	hook func()
}

func (g *verifLowestFree) GenerateTokens(n int, taken []uint32) Tokens {
	used := map[uint32]bool{}
	for _, t := range taken {
		used[t] = true
	}
	var out Tokens
	for t := uint32(1); len(out) < n; t++ {
		if !used[t] {
			out = append(out, t)
		}
	}
	if g.hook != nil {
		g.once.Do(g.hook) // runs after this instance has chosen, before it writes
	}
	return out
}
func (g *verifLowestFree) CanJoin(map[string]InstanceDesc) error { return nil }
func (g *verifLowestFree) CanJoinEnabled() bool                  { return false }

func TestVerifBounded_C08_JoinRetry(t *testing.T) {
	cases, fails := 0, 0
	report := func(id, msg string) {
		fails++
		if fails <= 5 {
			fmt.Printf("BOUNDED-VIOLATION case=%s %s\n", id, msg)
		}
	}
	ctx := context.Background()
	for _, numTokens := range []int{1, 3, 8} {
		cases++
		tag := fmt.Sprintf("c08:join-retry:tokens=%d", numTokens)
		store, closer := consul.NewInMemoryClient(GetCodec(), log.NewNopLogger(), nil)
		cfg2 := verifLifecyclerCfg(store, "ing2", numTokens, "")
		cfg2.RingTokenGenerator = &verifLowestFree{}
		lc2, err := NewLifecycler(cfg2, nil, "test", "ring", true, log.NewNopLogger(), nil)
		if err != nil {
			t.Fatal(err)
		}
		cfg1 := verifLifecyclerCfg(store, "ing1", numTokens, "")
		cfg1.RingTokenGenerator = &verifLowestFree{hook: func() {
			_ = services.StartAndAwaitRunning(ctx, lc2)
			verifAwaitState(store, "ing2", ACTIVE, 15*time.Second)
		}}
		lc1, err := NewLifecycler(cfg1, nil, "test", "ring", true, log.NewNopLogger(), nil)
		if err != nil {
			t.Fatal(err)
		}
		_ = services.StartAndAwaitRunning(ctx, lc1)
		if !verifAwaitState(store, "ing1", ACTIVE, 15*time.Second) {
			report(tag+":never-active", "ing1 did not become ACTIVE")
		}
		v, _ := store.Get(ctx, "ring")
		d, _ := v.(*Desc)
		if d != nil {
			t1, t2 := append([]uint32{}, d.Ingesters["ing1"].Tokens...), append([]uint32{}, d.Ingesters["ing2"].Tokens...)
			sort.Slice(t1, func(a, b int) bool { return t1[a] < t1[b] })
			if len(t1) != numTokens || len(t2) != numTokens {
				report(tag+":count", fmt.Sprintf("ing1 %v ing2 %v, %d tokens configured", t1, t2, numTokens))
			}
			for _, a := range t1 {
				for _, b := range t2 {
					if a == b {
						report(tag+":taken", fmt.Sprintf("ing1 published token %d although it was visible in the ring as ing2's when ing1's write was based on that ring version (ing1 %v, ing2 %v)", a, t1, t2))
					}
				}
			}
		}
		_ = services.StopAndAwaitTerminated(ctx, lc1)
		_ = services.StopAndAwaitTerminated(ctx, lc2)
		closer.Close()
	}
	fmt.Printf("BOUNDED-CASES name=C08_JoinRetry n=%d distinct=%d bound=2 lifecyclers, deterministic lowest-free-token generator, the second registers between the first one's choice and write (one forced compare-and-swap conflict); 1, 3, 8 tokens\n", cases, cases)
	if fails > 0 {
		t.Fatalf("%d violations", fails)
	}
}
