// verif-pkg: ring
//
// Bounded stand-in / replay harness for C08 (NOT proof): readiness. A lifecycler does not report ready before it is
// ACTIVE with tokens and, if so configured, every ring member is ACTIVE and healthy.
package ring

import (
	"context"
	"fmt"
	"testing"
	"time"

	"github.com/go-kit/log"

	"github.com/grafana/dskit/kv/consul"
	"github.com/grafana/dskit/services"
)

func TestVerifBounded_C08_Readiness(t *testing.T) {
	ctx := context.Background()
	cases, fails := 0, 0
	report := func(id, msg string) {
		fails++
		if fails <= 5 {
			fmt.Printf("BOUNDED-VIOLATION case=%s %s\n", id, msg)
		}
	}
	// the other ring member: ACTIVE and healthy with tokens / ACTIVE with a stale heartbeat / JOINING / none
	others := []string{"healthy", "stale", "joining", "none"}
	for _, ringHealth := range []bool{false, true} {
		for _, other := range others {
			for _, withTokens := range []bool{false, true} {
				cases++
				id := fmt.Sprintf("c08-ready:ringhealth=%v:other=%s:tokens=%v", ringHealth, other, withTokens)
				store, closer := consul.NewInMemoryClient(GetCodec(), log.NewNopLogger(), nil)
				if other != "none" {
					_ = store.CAS(ctx, "ring", func(in interface{}) (interface{}, bool, error) {
						d := GetOrCreateRingDesc(in)
						st := ACTIVE
						if other == "joining" {
							st = JOINING
						}
						d.AddIngester("other", "10.0.0.2:1", "z1", []uint32{100, 200, 300}, st, time.Now(), false, time.Time{}, nil)
						e := d.Ingesters["other"]
						e.Timestamp = time.Now().Add(10 * time.Minute).Unix()
						if other == "stale" {
							e.Timestamp = time.Now().Add(-24 * time.Hour).Unix()
						}
						d.Ingesters["other"] = e
						return d, true, nil
					})
				}
				cfg := verifLifecyclerCfg(store, "self", 4, "")
				cfg.ReadinessCheckRingHealth = ringHealth
				if !withTokens {
					cfg.JoinAfter = time.Hour // never joins by itself: it is driven to ACTIVE from outside, without tokens
				}
				lc, err := NewLifecycler(cfg, nil, "test", "ring", true, log.NewNopLogger(), nil)
				if err != nil {
					t.Fatal(err)
				}
				if err := services.StartAndAwaitRunning(ctx, lc); err != nil {
					t.Fatal(err)
				}
				check := func(step string) {
					rerr := lc.CheckReady(ctx)
					if rerr != nil {
						return
					}
					v, _ := store.Get(ctx, "ring")
					d, _ := v.(*Desc)
					if d == nil {
						report(id+":"+step, "reported ready but the store holds no ring")
						return
					}
					self, ok := d.Ingesters["self"]
					if !ok || self.State != ACTIVE || len(self.Tokens) == 0 || len(lc.getTokens()) == 0 {
						report(id+":"+step, fmt.Sprintf("reported ready but the own entry is present=%v state=%v tokens=%v (remembered tokens %v)", ok, self.State, self.Tokens, lc.getTokens()))
					}
					if ringHealth && other != "none" && other != "healthy" {
						report(id+":"+step, fmt.Sprintf("reported ready although ring health checking is on and the other member is %s", other))
					}
				}
				check("started")
				if withTokens {
					if !verifAwaitState(store, "self", ACTIVE, 15*time.Second) {
						report(id+":never-active", "self did not become ACTIVE")
					}
					for n := 0; n < 5; n++ {
						check("active-with-tokens")
						time.Sleep(5 * time.Millisecond)
					}
					// positive control: with a healthy ring (or no ring health check) the instance does become ready
					if other == "healthy" || other == "none" || !ringHealth {
						ok := false
						for w := 0; w < 2000 && !ok; w++ {
							ok = lc.CheckReady(ctx) == nil
							if !ok {
								time.Sleep(5 * time.Millisecond)
							}
						}
						if !ok {
							report(id+":never-ready", "ACTIVE with tokens in a healthy ring but never ready")
						}
					}
				} else {
					_ = lc.ChangeState(ctx, JOINING)
					check("joining")
					_ = lc.ChangeState(ctx, ACTIVE)
					for n := 0; n < 5; n++ {
						check("active-without-tokens")
						time.Sleep(5 * time.Millisecond)
					}
				}
				_ = services.StopAndAwaitTerminated(ctx, lc)
				_ = closer.Close()
			}
		}
	}
	fmt.Printf("BOUNDED-CASES name=C08_Readiness n=%d distinct=%d bound=ring health check on/off x other member (healthy, stale heartbeat, joining, none) x own instance ACTIVE with generated tokens / driven to ACTIVE without tokens; CheckReady probed in every phase\n", cases, cases)
	if fails > 0 {
		t.Fatalf("%d mismatches", fails)
	}
}
