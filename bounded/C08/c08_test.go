// verif-pkg: ring
//
// Bounded stand-in / replay harness for C08 and C09 (NOT proof): real lifecyclers on the in-memory consul store; every
// ring write is observed through a watcher and checked against the statement.
package ring

import (
	"context"
	"fmt"
	"os"
	"path/filepath"
	"sort"
	"sync"
	"testing"
	"time"

	"github.com/go-kit/log"

	"github.com/grafana/dskit/flagext"
	"github.com/grafana/dskit/kv"
	"github.com/grafana/dskit/kv/consul"
	"github.com/grafana/dskit/services"
)

type verifRingWatch struct {
	mu    sync.Mutex
	snaps []*Desc
}

func verifWatch(ctx context.Context, store kv.Client, key string) *verifRingWatch {
	w := &verifRingWatch{}
	go store.WatchKey(ctx, key, func(v interface{}) bool {
		if d, ok := v.(*Desc); ok && d != nil {
			w.mu.Lock()
			w.snaps = append(w.snaps, d.Clone().(*Desc))
			w.mu.Unlock()
		}
		return true
	})
	return w
}

var verifLegalPublished = map[[2]InstanceState]bool{
	{PENDING, JOINING}: true, {JOINING, ACTIVE}: true, {PENDING, ACTIVE}: true, {ACTIVE, LEAVING}: true,
	{JOINING, PENDING}: true, {LEAVING, ACTIVE}: true, // restart edges
}

// verifCheckHistory checks the observed ring history for the instance ids managed by lifecyclers and the foreign sentinel.
func verifCheckHistory(snaps []*Desc, managed []string, numTokens int, sentinel *InstanceDesc, report func(id, msg string), tag string) {
	lastState := map[string]InstanceState{}
	lastTs := map[string]int64{}
	reg := map[string]int64{}
	present := map[string]bool{}
	for si, d := range snaps {
		if sentinel != nil {
			got, ok := d.Ingesters["foreign"]
			if !ok || fmt.Sprint(got) != fmt.Sprint(*sentinel) {
				report(tag+":foreign-touched", fmt.Sprintf("snapshot %d: the entry of another instance changed from %v to %v (present=%v)", si, *sentinel, got, ok))
				return
			}
		}
		owner := map[uint32]string{}
		for id, e := range d.Ingesters {
			for i, tk := range e.Tokens {
				if i > 0 && e.Tokens[i-1] >= tk {
					report(tag+":tokens-unsorted", fmt.Sprintf("snapshot %d: %s tokens %v", si, id, e.Tokens))
				}
				if o, dup := owner[tk]; dup {
					report(tag+":token-collision", fmt.Sprintf("snapshot %d: token %d held by %s and %s", si, tk, o, id))
				}
				owner[tk] = id
			}
		}
		for _, id := range managed {
			e, ok := d.Ingesters[id]
			if !ok {
				present[id] = false
				continue
			}
			if present[id] {
				if e.State != lastState[id] && !verifLegalPublished[[2]InstanceState{lastState[id], e.State}] {
					report(tag+":illegal-state-edge", fmt.Sprintf("snapshot %d: %s published %v -> %v", si, id, lastState[id], e.State))
				}
				if e.Timestamp < lastTs[id] {
					report(tag+":heartbeat-backwards", fmt.Sprintf("snapshot %d: %s heartbeat %d after %d", si, id, e.Timestamp, lastTs[id]))
				}
				if e.RegisteredTimestamp != reg[id] {
					report(tag+":registration-changed", fmt.Sprintf("snapshot %d: %s registration time %d, was %d, while the entry stayed in the ring", si, id, e.RegisteredTimestamp, reg[id]))
				}
			}
			if e.State == ACTIVE && len(e.Tokens) != numTokens {
				report(tag+":active-token-count", fmt.Sprintf("snapshot %d: %s is ACTIVE with %d tokens, configured %d", si, id, len(e.Tokens), numTokens))
			}
			present[id] = true
			lastState[id], lastTs[id], reg[id] = e.State, e.Timestamp, e.RegisteredTimestamp
		}
	}
}

func verifLifecyclerCfg(store kv.Client, id string, numTokens int, tokensFile string) LifecyclerConfig {
	var cfg LifecyclerConfig
	flagext.DefaultValues(&cfg)
	cfg.RingConfig.KVStore.Mock = store
	cfg.RingConfig.ReplicationFactor = 1
	cfg.Addr, cfg.Port, cfg.ID, cfg.Zone = "127.0.0.1", 1, id, "z1"
	cfg.NumTokens = numTokens
	cfg.HeartbeatPeriod = 20 * time.Millisecond
	cfg.JoinAfter, cfg.ObservePeriod, cfg.MinReadyDuration, cfg.FinalSleep = 0, 0, 0, 0
	cfg.TokensFilePath = tokensFile
	return cfg
}

func verifAwaitState(store kv.Client, id string, st InstanceState, d time.Duration) bool {
	deadline := time.Now().Add(d)
	fresh := time.Now().Unix() - 5 // the entry must have been written by the running lifecycler (leftovers are older)
	for time.Now().Before(deadline) {
		v, _ := store.Get(context.Background(), "ring")
		if r, ok := v.(*Desc); ok && r != nil {
			if e, ok := r.Ingesters[id]; ok && e.State == st && e.Timestamp >= fresh {
				return true
			}
		}
		time.Sleep(2 * time.Millisecond)
	}
	return false
}

func TestVerifBounded_C08_Lifecyclers(t *testing.T) {
	rounds := 3
	if os.Getenv("VERIF_TIER") == "thorough" {
		rounds = 25
	}
	cases, fails := 0, 0
	report := func(id, msg string) {
		fails++
		if fails <= 5 {
			fmt.Printf("BOUNDED-VIOLATION case=%s %s\n", id, msg)
		}
	}
	ctx := context.Background()
	for round := 0; round < rounds; round++ {
		for nlc := 1; nlc <= 3; nlc++ {
			cases++
			tag := fmt.Sprintf("c08:n=%d", nlc)
			store, closer := consul.NewInMemoryClient(GetCodec(), log.NewNopLogger(), nil)
			sentinel := InstanceDesc{Addr: "9.9.9.9", Timestamp: time.Now().Unix() + 1000, State: JOINING, Tokens: []uint32{5, 4000000000}, Zone: "zz", RegisteredTimestamp: 7, Id: "foreign"}
			_ = store.CAS(ctx, "ring", func(in interface{}) (interface{}, bool, error) {
				d := NewDesc()
				d.Ingesters["foreign"] = sentinel
				return d, true, nil
			})
			wctx, wcancel := context.WithCancel(ctx)
			w := verifWatch(wctx, store, "ring")
			var lcs []*Lifecycler
			var ids []string
			for i := 0; i < nlc; i++ {
				id := fmt.Sprintf("ing-%d", i)
				lc, err := NewLifecycler(verifLifecyclerCfg(store, id, 4, ""), nil, "test", "ring", true, log.NewNopLogger(), nil)
				if err != nil {
					t.Fatal(err)
				}
				lcs = append(lcs, lc)
				ids = append(ids, id)
			}
			var wg sync.WaitGroup
			for _, lc := range lcs {
				wg.Add(1)
				go func(lc *Lifecycler) { defer wg.Done(); _ = services.StartAndAwaitRunning(ctx, lc) }(lc)
			}
			wg.Wait()
			for _, id := range ids {
				if !verifAwaitState(store, id, ACTIVE, 15*time.Second) {
					report(tag+":never-active", id+" did not become ACTIVE")
				}
			}
			// not ready before active with tokens
			for _, lc := range lcs {
				if err := lc.CheckReady(ctx); err != nil && len(lc.getTokens()) == 4 {
					_ = err // readiness may lag (min ready duration); only the converse is a violation
				}
			}
			time.Sleep(80 * time.Millisecond) // a few heartbeats
			for i, lc := range lcs {
				if i%2 == 1 {
					lc.SetUnregisterOnShutdown(false)
				}
				_ = services.StopAndAwaitTerminated(ctx, lc)
			}
			time.Sleep(10 * time.Millisecond)
			wcancel()
			w.mu.Lock()
			snaps := append([]*Desc{}, w.snaps...)
			w.mu.Unlock()
			verifCheckHistory(snaps, ids, 4, &sentinel, report, tag)
			_ = closer.Close()
		}
	}
	fmt.Printf("BOUNDED-CASES name=C08_Lifecyclers n=%d distinct=%d bound=%d rounds x 1..3 classic lifecyclers (4 tokens, 20ms heartbeat) started concurrently on one in-memory store holding a foreign entry, run for some heartbeats, stopped with/without unregistering; every observed ring snapshot checked\n", cases, 3, rounds)
	if fails > 0 {
		t.Fatalf("%d mismatches", fails)
	}
}

func TestVerifBounded_C08_RecoveryStates(t *testing.T) {
	cases, fails := 0, 0
	report := func(id, msg string) {
		fails++
		if fails <= 5 {
			fmt.Printf("BOUNDED-VIOLATION case=%s %s\n", id, msg)
		}
	}
	ctx := context.Background()
	dir := t.TempDir()
	// what the ring may hold when the process restarts after dying between two ring writes
	type leftover struct {
		name   string
		state  InstanceState
		tokens []uint32
		absent bool
	}
	lefts := []leftover{
		{"absent", PENDING, nil, true},
		{"pending-no-tokens", PENDING, nil, false},
		{"joining-no-tokens", JOINING, nil, false},
		{"joining-with-tokens", JOINING, []uint32{10, 20, 30, 40}, false},
		{"active", ACTIVE, []uint32{10, 20, 30, 40}, false},
		{"leaving", LEAVING, []uint32{10, 20, 30, 40}, false},
		{"leaving-too-few", LEAVING, []uint32{10, 20}, false},
		{"leaving-too-many", LEAVING, []uint32{10, 20, 30, 40, 50, 60}, false},
	}
	for _, lo := range lefts {
		for _, withFile := range []bool{false, true} {
			cases++
			tag := fmt.Sprintf("c09:%s:file=%v", lo.name, withFile)
			store, closer := consul.NewInMemoryClient(GetCodec(), log.NewNopLogger(), nil)
			reg := time.Now().Add(-time.Hour).Unix()
			_ = store.CAS(ctx, "ring", func(in interface{}) (interface{}, bool, error) {
				d := NewDesc()
				d.Ingesters["other"] = InstanceDesc{Addr: "1.1.1.1", Timestamp: time.Now().Unix(), State: ACTIVE, Tokens: []uint32{15, 25, 35, 45}, Zone: "z2", RegisteredTimestamp: 5, Id: "other"}
				if !lo.absent {
					d.Ingesters["me"] = InstanceDesc{Addr: "127.0.0.1:1", Timestamp: time.Now().Unix() - 30, State: lo.state, Tokens: lo.tokens, Zone: "z1", RegisteredTimestamp: reg, Id: "me"}
				}
				return d, true, nil
			})
			file := ""
			if withFile {
				file = filepath.Join(dir, tag+".json")
				if err := (Tokens{100, 200, 300, 400}).StoreToFile(file); err != nil {
					t.Fatal(err)
				}
			}
			lc, err := NewLifecycler(verifLifecyclerCfg(store, "me", 4, file), nil, "test", "ring", true, log.NewNopLogger(), nil)
			if err != nil {
				t.Fatal(err)
			}
			_ = services.StartAndAwaitRunning(ctx, lc)
			if !verifAwaitState(store, "me", ACTIVE, 15*time.Second) {
				report(tag+":never-active", "the restarted lifecycler did not reach ACTIVE")
			}
			v, _ := store.Get(ctx, "ring")
			d := v.(*Desc)
			me := d.Ingesters["me"]
			if len(me.Tokens) != 4 {
				report(tag+":token-count", fmt.Sprintf("ACTIVE with %d tokens", len(me.Tokens)))
			}
			for _, tk := range me.Tokens {
				for _, o := range d.Ingesters["other"].Tokens {
					if tk == o {
						report(tag+":collision", fmt.Sprintf("token %d collides with another instance", tk))
					}
				}
			}
			if fmt.Sprint(d.Ingesters["other"].Tokens) != "[15 25 35 45]" {
				report(tag+":other-touched", fmt.Sprint(d.Ingesters["other"]))
			}
			if !lo.absent {
				if me.RegisteredTimestamp != reg {
					report(tag+":registration", fmt.Sprintf("registration time %d, the ring recorded %d", me.RegisteredTimestamp, reg))
				}
				if len(lo.tokens) == 4 && fmt.Sprint(me.Tokens) != fmt.Sprint(lo.tokens) {
					report(tag+":tokens-kept", fmt.Sprintf("tokens %v, the ring recorded %v", me.Tokens, lo.tokens))
				}
				if len(lo.tokens) == 2 {
					have := map[uint32]bool{}
					for _, tk := range me.Tokens {
						have[tk] = true
					}
					if !have[10] || !have[20] {
						report(tag+":tokens-kept", fmt.Sprintf("tokens %v lost the recorded ones %v", me.Tokens, lo.tokens))
					}
				}
			} else if withFile && fmt.Sprint(me.Tokens) != "[100 200 300 400]" {
				report(tag+":file-tokens", fmt.Sprintf("tokens %v, the tokens file recorded [100 200 300 400]", me.Tokens))
			}
			// the store loses the ring while the lifecycler runs: it re-registers with its remembered tokens and a fresh registration time
			before := me
			_ = store.Delete(ctx, "ring")
			ok := false
			deadline := time.Now().Add(2 * time.Second)
			for time.Now().Before(deadline) && !ok {
				v, _ := store.Get(ctx, "ring")
				if r, isD := v.(*Desc); isD && r != nil {
					if e, has := r.Ingesters["me"]; has {
						ok = true
						if fmt.Sprint(e.Tokens) != fmt.Sprint(before.Tokens) || e.State != ACTIVE {
							report(tag+":wipe-remembered", fmt.Sprintf("after the wipe re-registered as %v %v, remembered %v ACTIVE", e.State, e.Tokens, before.Tokens))
						}
						if e.RegisteredTimestamp < time.Now().Unix()-5 {
							report(tag+":wipe-registration", fmt.Sprintf("after the wipe the registration time %d is not fresh", e.RegisteredTimestamp))
						}
					}
				}
				time.Sleep(3 * time.Millisecond)
			}
			if !ok {
				report(tag+":wipe-never", "the lifecycler did not re-register after the store lost the ring")
			}
			_ = services.StopAndAwaitTerminated(ctx, lc)
			_ = closer.Close()
		}
	}
	// tokens file: an interrupted write never leaves a corrupt file (the final path holds the old or the new content)
	{
		cases++
		f := filepath.Join(dir, "tokens.json")
		_ = (Tokens{1, 2, 3}).StoreToFile(f)
		_ = (Tokens{9, 8, 7}).StoreToFile(f)
		got, err := LoadTokensFromFile(f)
		sort.Slice(got, func(i, j int) bool { return got[i] < got[j] })
		if err != nil || fmt.Sprint(got) != "[7 8 9]" {
			report("c09:tokens-file", fmt.Sprintf("%v %v", got, err))
		}
		left, _ := filepath.Glob(filepath.Join(dir, "tokens.json*"))
		if len(left) != 1 {
			report("c09:tokens-file-temp", fmt.Sprintf("temporary files left behind: %v", left))
		}
	}
	fmt.Printf("BOUNDED-CASES name=C09_Recovery n=%d distinct=%d bound=restart with the ring holding {no entry, pending, joining (with/without tokens), active, leaving (4, 2, 6 tokens)} x tokens file present/absent, next to another instance; then the store loses the ring while running; tokens file rewrite\n", cases, cases)
	if fails > 0 {
		t.Fatalf("%d mismatches", fails)
	}
}
