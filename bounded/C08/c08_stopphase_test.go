// verif-pkg: ring
//
// Bounded stand-in / replay harness for C08 (NOT proof): a classic lifecycler stopped in each phase of its start-up
// (still PENDING before the join, JOINING during the token observation period, ACTIVE), with and without unregistering:
// every published state change is an edge of the state machine.
package ring

import (
	"context"
	"fmt"
	"testing"
	"time"

	"github.com/go-kit/log"

	"github.com/grafana/dskit/kv/consul"
	"github.com/grafana/dskit/services"
)

func TestVerifBounded_C08_StopInEveryPhase(t *testing.T) {
	cases, fails := 0, 0
	report := func(id, msg string) {
		fails++
		if fails <= 5 {
			fmt.Printf("BOUNDED-VIOLATION case=%s %s\n", id, msg)
		}
	}
	ctx := context.Background()
	for _, phase := range []InstanceState{PENDING, JOINING, ACTIVE} {
		for _, unregister := range []bool{true, false} {
			cases++
			tag := fmt.Sprintf("c08:stop-while=%v:unregister=%v", phase, unregister)
			store, closer := consul.NewInMemoryClient(GetCodec(), log.NewNopLogger(), nil)
			wctx, wcancel := context.WithCancel(ctx)
			w := verifWatch(wctx, store, "ring")
			cfg := verifLifecyclerCfg(store, "me", 4, "")
			switch phase {
			case PENDING:
				cfg.JoinAfter = time.Hour
			case JOINING:
				cfg.ObservePeriod = time.Hour
			}
			lc, err := NewLifecycler(cfg, nil, "test", "ring", true, log.NewNopLogger(), nil)
			if err != nil {
				t.Fatal(err)
			}
			lc.SetUnregisterOnShutdown(unregister)
			_ = services.StartAndAwaitRunning(ctx, lc)
			if !verifAwaitState(store, "me", phase, 15*time.Second) {
				report(tag+":phase", fmt.Sprintf("the lifecycler never published %v", phase))
			}
			time.Sleep(50 * time.Millisecond) // a couple of heartbeats in that phase
			_ = services.StopAndAwaitTerminated(ctx, lc)
			time.Sleep(10 * time.Millisecond)
			wcancel()
			w.mu.Lock()
			snaps := append([]*Desc{}, w.snaps...)
			w.mu.Unlock()
			verifCheckHistory(snaps, []string{"me"}, 4, nil, report, tag)
			_ = closer.Close()
		}
	}
	fmt.Printf("BOUNDED-CASES name=C08_StopInEveryPhase n=%d distinct=%d bound=one classic lifecycler stopped while PENDING (join delayed), JOINING (observe period running) or ACTIVE, with and without unregistering; every observed ring snapshot checked against the state machine\n", cases, cases)
	if fails > 0 {
		t.Fatalf("%d violations", fails)
	}
}
