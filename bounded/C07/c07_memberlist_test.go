// verif-pkg: kv/memberlist
//
// Bounded stand-in / replay harness for C07 on the memberlist KV (single node), NOT proof.
package memberlist

import (
	"bytes"
	"context"
	"encoding/gob"
	"fmt"
	"sync"
	"testing"
	"time"

	"github.com/go-kit/log"
	"github.com/prometheus/client_golang/prometheus"

	"github.com/grafana/dskit/flagext"
	"github.com/grafana/dskit/kv/codec"
	"github.com/grafana/dskit/services"
)

// verifCounter: last-writer-wins register holding a counter; every function invocation stamps its output with a fresh,
// larger stamp (like the ring's timestamps), so a write computed from a stale read overrides newer content and shows up
// as a counter smaller than the number of successful calls.
type verifCounter struct {
	Stamp int64
	N     int
	Seen  []int // predecessor values the successful functions were applied to
}

var verifStamp int64
var verifStampMu sync.Mutex

func verifNextStamp() int64 {
	verifStampMu.Lock()
	defer verifStampMu.Unlock()
	verifStamp++
	return verifStamp
}

func (c *verifCounter) Merge(other Mergeable, _ bool) (Mergeable, error) {
	o, ok := other.(*verifCounter)
	if !ok || o == nil || o.Stamp <= c.Stamp {
		return nil, nil
	}
	c.Stamp, c.N, c.Seen = o.Stamp, o.N, append([]int{}, o.Seen...)
	return c.Clone(), nil
}
func (c *verifCounter) MergeContent() []string { return []string{fmt.Sprint(c.N)} }
func (c *verifCounter) RemoveTombstones(time.Time) (int, int) { return 0, 0 }
func (c *verifCounter) Clone() Mergeable {
	return &verifCounter{Stamp: c.Stamp, N: c.N, Seen: append([]int{}, c.Seen...)}
}

type verifCounterCodec struct{}

func (verifCounterCodec) CodecID() string { return "verifCounter" }
func (verifCounterCodec) Decode(b []byte) (interface{}, error) {
	var c verifCounter
	err := gob.NewDecoder(bytes.NewReader(b)).Decode(&c)
	return &c, err
}
func (verifCounterCodec) Encode(v interface{}) ([]byte, error) {
	var buf bytes.Buffer
	err := gob.NewEncoder(&buf).Encode(v.(*verifCounter))
	return buf.Bytes(), err
}

func verifNewKV(t *testing.T) (*KV, *Client) {
	var c codec.Codec = verifCounterCodec{}
	var cfg KVConfig
	flagext.DefaultValues(&cfg)
	cfg.TCPTransport = TCPTransportConfig{BindAddrs: getLocalhostAddrs()}
	cfg.Codecs = []codec.Codec{c}
	mkv := NewKV(cfg, log.NewNopLogger(), &staticDNSProviderMock{}, prometheus.NewPedanticRegistry())
	if err := services.StartAndAwaitRunning(context.Background(), mkv); err != nil {
		t.Fatal(err)
	}
	cl, err := NewClient(mkv, c)
	if err != nil {
		t.Fatal(err)
	}
	return mkv, cl
}

func verifInc(in interface{}) (interface{}, bool, error) {
	cur := 0
	var seen []int
	if in != nil {
		c := in.(*verifCounter)
		cur, seen = c.N, c.Seen
	}
	return &verifCounter{Stamp: verifNextStamp(), N: cur + 1, Seen: append(append([]int{}, seen...), cur)}, true, nil
}

func TestVerifBounded_C07_Memberlist(t *testing.T) {
	cases, fails := 0, 0
	report := func(id, msg string) {
		fails++
		if fails <= 5 {
			fmt.Printf("BOUNDED-VIOLATION case=%s %s\n", id, msg)
		}
	}
	ctx := context.Background()
	// (1) a compare-and-swap completing between the read and the write of another one, on a key that does not exist yet
	//     and on an existing key: the outer function must be re-applied to the value the inner call left
	for _, existing := range []bool{false, true} {
		cases++
		mkv, cl := verifNewKV(t)
		key := "k"
		if existing {
			if err := cl.CAS(ctx, key, verifInc); err != nil {
				t.Fatal(err)
			}
		}
		outerCalls := 0
		err := cl.CAS(ctx, key, func(in interface{}) (interface{}, bool, error) {
			outerCalls++
			if outerCalls == 1 {
				if err := cl.CAS(ctx, key, verifInc); err != nil {
					return nil, false, err
				}
			}
			return verifInc(in)
		})
		v, _ := cl.Get(ctx, key)
		want := 2
		if existing {
			want = 3
		}
		got := 0
		if v != nil {
			got = v.(*verifCounter).N
		}
		if err != nil || got != want {
			report(fmt.Sprintf("c07-memberlist-nested:existing=%v", existing), fmt.Sprintf("outer CAS err=%v ran its function %d time(s); %d successful increments but the stored counter is %d (an update was overwritten unseen)", err, outerCalls, want, got))
		}
		_ = services.StopAndAwaitTerminated(ctx, mkv)
	}
	// (1b) the caller keeps the object its function returned (and, the other way round, the object it was handed) and
	//      changes it afterwards, on the call that creates the key and on a later one: the stored value must not follow -
	//      a change without a compare-and-swap is a phantom update
	for _, existing := range []bool{false, true} {
		cases++
		mkv, cl := verifNewKV(t)
		key := "held"
		if existing {
			if err := cl.CAS(ctx, key, verifInc); err != nil {
				t.Fatal(err)
			}
		}
		var heldOut, heldIn *verifCounter
		err := cl.CAS(ctx, key, func(in interface{}) (interface{}, bool, error) {
			if in != nil {
				heldIn = in.(*verifCounter)
			}
			o, r, e := verifInc(in)
			heldOut = o.(*verifCounter)
			return o, r, e
		})
		before, _ := cl.Get(ctx, key)
		wantN := before.(*verifCounter).N
		heldOut.N = 1000
		heldOut.Stamp += 1000
		if heldIn != nil {
			heldIn.N = 2000
		}
		after, _ := cl.Get(ctx, key)
		if err != nil || after.(*verifCounter).N != wantN {
			report(fmt.Sprintf("c07-memberlist-held-reference:existing=%v", existing), fmt.Sprintf("err=%v; the stored counter went from %d to %d when the caller changed the object its function had returned / been handed, without any compare-and-swap", err, wantN, after.(*verifCounter).N))
		}
		var seenByNext int
		_ = cl.CAS(ctx, key, func(in interface{}) (interface{}, bool, error) {
			seenByNext = in.(*verifCounter).N
			return nil, false, nil
		})
		if seenByNext != wantN {
			report(fmt.Sprintf("c07-memberlist-held-reference:existing=%v:next", existing), fmt.Sprintf("the next compare-and-swap was handed %d, a value no successful call wrote (last written %d)", seenByNext, wantN))
		}
		_ = services.StopAndAwaitTerminated(ctx, mkv)
	}
	// (2) concurrent increments
	for round := 0; round < 3; round++ {
		mkv, cl := verifNewKV(t)
		var wg sync.WaitGroup
		const workers, each = 8, 15
		okCount := 0
		var mu sync.Mutex
		for w := 0; w < workers; w++ {
			wg.Add(1)
			go func() {
				defer wg.Done()
				for i := 0; i < each; i++ {
					if err := cl.CAS(ctx, "ctr", verifInc); err == nil {
						mu.Lock()
						okCount++
						mu.Unlock()
					}
				}
			}()
		}
		wg.Wait()
		cases += workers * each
		v, _ := cl.Get(ctx, "ctr")
		c := v.(*verifCounter)
		dup := map[int]bool{}
		for _, s := range c.Seen {
			if dup[s] {
				report("c07-memberlist-concurrent", fmt.Sprintf("two successful calls were applied to the same predecessor value %d", s))
			}
			dup[s] = true
		}
		if c.N != okCount {
			report("c07-memberlist-concurrent", fmt.Sprintf("%d calls reported success but the counter is %d", okCount, c.N))
		}
		_ = services.StopAndAwaitTerminated(ctx, mkv)
	}
	// (3) a declining function and a failing function leave the value unchanged
	{
		cases += 2
		mkv, cl := verifNewKV(t)
		_ = cl.CAS(ctx, "k", verifInc)
		_ = cl.CAS(ctx, "k", func(interface{}) (interface{}, bool, error) { return nil, false, nil })
		err := cl.CAS(ctx, "k", func(interface{}) (interface{}, bool, error) { return nil, false, fmt.Errorf("no") })
		v, _ := cl.Get(ctx, "k")
		if err == nil || v.(*verifCounter).N != 1 {
			report("c07-memberlist-decline", fmt.Sprintf("err=%v value=%d", err, v.(*verifCounter).N))
		}
		_ = services.StopAndAwaitTerminated(ctx, mkv)
	}
	// (4) the caller's context ends while its function runs (cancel, deadline): whatever the call reports, an error
	//     means the stored value did not change, and success means the function was applied exactly once
	for _, how := range []string{"cancel", "deadline"} {
		for _, existing := range []bool{false, true} {
			cases++
			mkv, cl := verifNewKV(t)
			before := 0
			if existing {
				_ = cl.CAS(ctx, "k", verifInc)
				before = 1
			}
			cctx, cancel := context.WithCancel(ctx)
			if how == "deadline" {
				cctx, cancel = context.WithTimeout(ctx, 20*time.Millisecond)
			}
			err := cl.CAS(cctx, "k", func(in interface{}) (interface{}, bool, error) {
				if how == "cancel" {
					cancel()
				} else {
					<-cctx.Done()
				}
				return verifInc(in)
			})
			cancel()
			v, _ := cl.Get(ctx, "k")
			after := 0
			if v != nil {
				after = v.(*verifCounter).N
			}
			if (err != nil && after != before) || (err == nil && after != before+1) {
				report(fmt.Sprintf("c07-memberlist-ctx:%s:existing=%v", how, existing), fmt.Sprintf("CAS reported err=%v, stored counter went from %d to %d", err, before, after))
			}
			_ = services.StopAndAwaitTerminated(ctx, mkv)
		}
	}
	fmt.Printf("BOUNDED-CASES name=C07_Memberlist n=%d distinct=%d bound=single-node memberlist KV: nested CAS between read and write (absent and existing key), 3 rounds of 8 goroutines x 15 increments, declining/failing function, caller context cancelled / expired inside the function\n", cases, cases)
	if fails > 0 {
		t.Fatalf("%d mismatches", fails)
	}
}
