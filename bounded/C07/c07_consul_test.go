// verif-pkg: kv/consul
//
// Bounded stand-in / replay harness for C07 on the in-memory consul client, NOT proof.
package consul

import (
	"context"
	"fmt"
	"sync"
	"testing"

	"github.com/go-kit/log"

	"github.com/grafana/dskit/kv/codec"
)

func verifIncString(in interface{}) (interface{}, bool, error) {
	n := 0
	if in != nil {
		fmt.Sscan(in.(string), &n)
	}
	return fmt.Sprint(n + 1), true, nil
}

func TestVerifBounded_C07_Consul(t *testing.T) {
	cases, fails := 0, 0
	report := func(id, msg string) {
		fails++
		if fails <= 5 {
			fmt.Printf("BOUNDED-VIOLATION case=%s %s\n", id, msg)
		}
	}
	ctx := context.Background()
	for _, existing := range []bool{false, true} {
		cases++
		c, closer := NewInMemoryClient(codec.String{}, log.NewNopLogger(), nil)
		if existing {
			_ = c.CAS(ctx, "k", verifIncString)
		}
		calls := 0
		err := c.CAS(ctx, "k", func(in interface{}) (interface{}, bool, error) {
			calls++
			if calls == 1 {
				_ = c.CAS(ctx, "k", verifIncString)
			}
			return verifIncString(in)
		})
		v, _ := c.Get(ctx, "k")
		want := "2"
		if existing {
			want = "3"
		}
		if err != nil || v != want {
			report(fmt.Sprintf("c07-consul-nested:existing=%v", existing), fmt.Sprintf("err=%v function ran %d times, stored %v, expected %s", err, calls, v, want))
		}
		_ = closer.Close()
	}
	for round := 0; round < 3; round++ {
		c, closer := NewInMemoryClientWithConfig(codec.String{}, Config{MaxCasRetries: 1000}, log.NewNopLogger(), nil)
		var wg sync.WaitGroup
		ok := 0
		var mu sync.Mutex
		const workers, each = 8, 20
		for w := 0; w < workers; w++ {
			wg.Add(1)
			go func() {
				defer wg.Done()
				for i := 0; i < each; i++ {
					if err := c.CAS(ctx, "ctr", verifIncString); err == nil {
						mu.Lock()
						ok++
						mu.Unlock()
					}
				}
			}()
		}
		wg.Wait()
		cases += workers * each
		v, _ := c.Get(ctx, "ctr")
		if v != fmt.Sprint(ok) {
			report("c07-consul-concurrent", fmt.Sprintf("%d calls reported success but the counter is %v", ok, v))
		}
		_ = closer.Close()
	}
	{
		cases += 2
		c, closer := NewInMemoryClient(codec.String{}, log.NewNopLogger(), nil)
		_ = c.CAS(ctx, "k", verifIncString)
		_ = c.CAS(ctx, "k", func(interface{}) (interface{}, bool, error) { return nil, false, nil })
		err := c.CAS(ctx, "k", func(interface{}) (interface{}, bool, error) { return nil, false, fmt.Errorf("no") })
		v, _ := c.Get(ctx, "k")
		if err == nil || v != "1" {
			report("c07-consul-decline", fmt.Sprintf("err=%v value=%v", err, v))
		}
		_ = closer.Close()
	}
	fmt.Printf("BOUNDED-CASES name=C07_Consul n=%d distinct=%d bound=in-memory consul: nested CAS (absent and existing key), 3 rounds of 8 goroutines x 20 increments, declining/failing function\n", cases, cases)
	if fails > 0 {
		t.Fatalf("%d mismatches", fails)
	}
}
