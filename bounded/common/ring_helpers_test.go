// verif-pkg: ring
//
// Helpers shared by the bounded harnesses of package ring (injected with every harness run).
package ring

import "time"

func verifBuildRing(desc *Desc, rf int, zoneAware bool) *Ring {
	r := &Ring{
		cfg:                  Config{HeartbeatTimeout: time.Hour, ZoneAwarenessEnabled: zoneAware, SubringCacheDisabled: true, ReplicationFactor: rf},
		strategy:             NewDefaultReplicationStrategy(),
		trackedRingZones:     map[string]struct{}{},
		shuffledSubringCache: map[subringCacheKey]*Ring{},
	}
	r.setRingStateFromDesc(desc, false, true, true)
	return r
}
