// verif-pkg: ring
//
// Helpers shared by the bounded harnesses of package ring (injected with every harness run).
package ring

import (
	"time"

	shardUtilPkg "github.com/grafana/dskit/ring/shard"
)

func shardUtilExpected(size, zones int) int {
	return shardUtilPkg.ShuffleShardExpectedInstancesPerZone(size, zones)
}

func verifBuildRing(desc *Desc, rf int, zoneAware bool) *Ring {
	r := &Ring{
		cfg:                  Config{HeartbeatTimeout: time.Hour, ZoneAwarenessEnabled: zoneAware, SubringCacheDisabled: true, ReplicationFactor: rf},
		strategy:             NewDefaultReplicationStrategy(),
		trackedRingZones:     map[string]struct{}{},
		shuffledSubringCache: map[subringCacheKey]*Ring{},
	}
	r.setRingStateFromDesc(desc, false, true, true)
	return r
}

func shardExpected(size, zones int) int { return shardUtilExpected(size, zones) }
