// verif-pkg: ring
//
// memberlist helpers shared by the bounded harnesses of package ring.
package ring

import (
	"context"
	"testing"

	"github.com/go-kit/log"
	"github.com/prometheus/client_golang/prometheus"

	"github.com/grafana/dskit/flagext"
	"github.com/grafana/dskit/kv/codec"
	"github.com/grafana/dskit/kv/memberlist"
	"github.com/grafana/dskit/services"
)

type verifDNS struct{ resolved []string }

func (p *verifDNS) Resolve(_ context.Context, addrs []string) error { p.resolved = addrs; return nil }
func (p verifDNS) Addresses() []string                              { return p.resolved }

// verifNewKV starts an isolated (never joined) memberlist KV; messages are delivered by hand through its delegate methods.
func verifNewKV(t *testing.T, mutate func(cfg *memberlist.KVConfig)) (*memberlist.KV, *memberlist.Client) {
	var cfg memberlist.KVConfig
	flagext.DefaultValues(&cfg)
	cfg.TCPTransport = memberlist.TCPTransportConfig{BindAddrs: []string{"127.0.0.1"}, BindPort: 0}
	cfg.Codecs = []codec.Codec{GetCodec(), GetPartitionRingCodec()}
	if mutate != nil {
		mutate(&cfg)
	}
	mkv := memberlist.NewKV(cfg, log.NewNopLogger(), &verifDNS{}, prometheus.NewPedanticRegistry())
	if err := services.StartAndAwaitRunning(context.Background(), mkv); err != nil {
		t.Fatal(err)
	}
	cl, err := memberlist.NewClient(mkv, GetCodec())
	if err != nil {
		t.Fatal(err)
	}
	return mkv, cl
}

func verifEncodeMsg(t *testing.T, key string, d *Desc) []byte {
	val, err := GetCodec().Encode(d)
	if err != nil {
		t.Fatal(err)
	}
	kvPair := memberlist.KeyValuePair{Key: key, Value: val, Codec: GetCodec().CodecID()}
	b, err := kvPair.Marshal()
	if err != nil {
		t.Fatal(err)
	}
	return b
}
