// verif-pkg: ring
//
// Bounded stand-in / replay harness for C02 (NOT proof): every acknowledging set of a successful quorum write
// intersects every answering set of a successful ring-wide quorum read.
package ring

import (
	"fmt"
	"math/rand"
	"os"
	"sort"
	"testing"
	"time"
)

func TestVerifBounded_C02_Intersection(t *testing.T) {
	seed := int64(1)
	fmt.Sscan(os.Getenv("VERIF_SEED"), &seed)
	rings := 3000
	if os.Getenv("VERIF_TIER") == "thorough" {
		rings = 40000
	}
	rnd := rand.New(rand.NewSource(seed))
	states := []InstanceState{ACTIVE, ACTIVE, ACTIVE, ACTIVE, LEAVING, PENDING, JOINING}
	now := time.Now()
	cases, distinct, fails := 0, 0, 0
	bufD, bufH, bufZ := MakeBuffersForGet()
	for it := 0; it < rings; it++ {
		zoneAware := rnd.Intn(2) == 0
		rf := 1 + rnd.Intn(4)
		nz := 1 + rnd.Intn(4)
		n := 1 + rnd.Intn(6)
		d := NewDesc()
		used := map[uint32]bool{}
		for i := 0; i < n; i++ {
			var toks []uint32
			for k := 1 + rnd.Intn(2); k > 0; k-- {
				tk := uint32(rnd.Intn(64))
				if !used[tk] {
					used[tk] = true
					toks = append(toks, tk)
				}
			}
			sort.Slice(toks, func(a, b int) bool { return toks[a] < toks[b] })
			zone := ""
			if zoneAware {
				zone = fmt.Sprintf("z%d", i%nz)
			}
			id := fmt.Sprintf("i%d", i)
			d.AddIngester(id, "addr-"+id, zone, toks, states[rnd.Intn(len(states))], now, false, time.Time{}, nil)
			if rnd.Intn(6) == 0 {
				e := d.Ingesters[id]
				e.Timestamp = now.Add(-time.Hour).Unix()
				d.Ingesters[id] = e
			}
		}
		r := &Ring{
			cfg:                  Config{HeartbeatTimeout: time.Minute, ZoneAwarenessEnabled: zoneAware, SubringCacheDisabled: true, ReplicationFactor: rf},
			strategy:             NewDefaultReplicationStrategy(),
			trackedRingZones:     map[string]struct{}{},
			shuffledSubringCache: map[subringCacheKey]*Ring{},
		}
		r.setRingStateFromDesc(d, false, true, true)
		readSet, rerr := r.GetReplicationSetForOperation(Read)
		if rerr != nil {
			continue
		}
		distinct++
		// answering sets of a successful read: minimal ones suffice (supersets intersect a fortiori)
		var answering [][]string
		if !readSet.ZoneAwarenessEnabled {
			need := len(readSet.Instances) - readSet.MaxErrors
			ids := make([]string, len(readSet.Instances))
			for i, in := range readSet.Instances {
				ids[i] = in.Id
			}
			for mask := 0; mask < 1<<len(ids); mask++ {
				var s []string
				for i := range ids {
					if mask&(1<<i) != 0 {
						s = append(s, ids[i])
					}
				}
				if len(s) == need {
					answering = append(answering, s)
				}
			}
		} else {
			byZone := map[string][]string{}
			var zones []string
			for _, in := range readSet.Instances {
				if _, ok := byZone[in.Zone]; !ok {
					zones = append(zones, in.Zone)
				}
				byZone[in.Zone] = append(byZone[in.Zone], in.Id)
			}
			need := len(zones) - readSet.MaxUnavailableZones
			if need < 0 {
				need = 0
			}
			for mask := 0; mask < 1<<len(zones); mask++ {
				var s []string
				cnt := 0
				for i, z := range zones {
					if mask&(1<<i) != 0 {
						cnt++
						s = append(s, byZone[z]...)
					}
				}
				if cnt == need {
					answering = append(answering, s)
				}
			}
		}
		for key := uint32(0); key < 64; key += 3 {
			ws, werr := r.Get(key, Write, bufD, bufH, bufZ)
			if werr != nil {
				continue
			}
			need := len(ws.Instances) - ws.MaxErrors
			ids := make([]string, len(ws.Instances))
			for i, in := range ws.Instances {
				ids[i] = in.Id
			}
			for mask := 0; mask < 1<<len(ids); mask++ {
				ack := map[string]bool{}
				cnt := 0
				for i := range ids {
					if mask&(1<<i) != 0 {
						ack[ids[i]] = true
						cnt++
					}
				}
				if cnt != need {
					continue
				}
				for _, ans := range answering {
					cases++
					common := false
					for _, a := range ans {
						if ack[a] {
							common = true
						}
					}
					if !common {
						fails++
						if fails <= 5 {
							fmt.Printf("BOUNDED-VIOLATION case=c02:ring=%d:key=%d write acknowledged by %v (of %v, tolerance %d) and read answered by %v (of %d instances, maxErrors=%d, maxUnavailableZones=%d) share no instance; rf=%d zoneAware=%v ring=%v\n", it, key, ack, ids, ws.MaxErrors, ans, len(readSet.Instances), readSet.MaxErrors, readSet.MaxUnavailableZones, rf, zoneAware, d.Ingesters)
						}
					}
				}
			}
		}
	}
	fmt.Printf("BOUNDED-CASES name=C02_Intersection n=%d distinct=%d bound=%d random rings (1..6 instances, 1..4 zones round-robin, RF 1..4, zone-awareness on/off, states, stale heartbeats), 22 keys each, every minimal acknowledging set x every minimal answering set, seed %d\n", cases, distinct, rings, seed)
	if fails > 0 {
		t.Fatalf("%d mismatches", fails)
	}
}
