// verif-pkg: ring
//
// Bounded stand-in / replay harness for C13 (NOT proof): a long-lived ring client that observed a sequence of updates and
// served queries in between answers exactly like a client freshly built from the latest content.
package ring

import (
	"fmt"
	"math/rand"
	"os"
	"sort"
	"testing"
	"time"

	"github.com/go-kit/log"
	"github.com/prometheus/client_golang/prometheus"

	"github.com/grafana/dskit/kv/consul"
)

func verifC13Client(t *testing.T, rf int, zoneAware bool) *Ring {
	store, _ := consul.NewInMemoryClient(GetCodec(), log.NewNopLogger(), nil)
	cfg := Config{HeartbeatTimeout: time.Minute, ZoneAwarenessEnabled: zoneAware, ReplicationFactor: rf, SubringCacheDisabled: false}
	r, err := NewWithStoreClientAndStrategy(cfg, "test", "ring", store, NewDefaultReplicationStrategy(), prometheus.NewPedanticRegistry(), log.NewNopLogger())
	if err != nil {
		t.Fatal(err)
	}
	return r
}

func verifC13Set(rs ReplicationSet, err error) string {
	if err != nil {
		return "err:" + err.Error()
	}
	var out []string
	for _, in := range rs.Instances {
		out = append(out, fmt.Sprintf("%s/%s/%v/%d/%v/%d/%v/%v", in.Id, in.Addr, in.State, in.Timestamp, in.ReadOnly, in.RegisteredTimestamp, in.Tokens, in.Versions))
	}
	sort.Strings(out)
	return fmt.Sprintf("%v maxErr=%d maxZones=%d", out, rs.MaxErrors, rs.MaxUnavailableZones)
}

// verifC13Stamp picks a registration / read-only change time: half of the time exactly on, one second before or one
// second after the start of one of the look-back windows the queries below ask for (the boundaries of the cache validity
// interval), otherwise some minute of the last two hours.
func verifC13Stamp(rnd *rand.Rand, now time.Time) time.Time {
	if rnd.Intn(2) == 0 {
		lbs := []time.Duration{time.Minute, time.Hour}
		ats := []time.Duration{0, -30 * time.Minute, 10 * time.Minute}
		start := now.Add(ats[rnd.Intn(3)]).Add(-lbs[rnd.Intn(2)])
		return start.Add(time.Duration(rnd.Intn(3)-1) * time.Second)
	}
	return now.Add(-time.Duration(rnd.Intn(120)) * time.Minute)
}

func verifC13Answers(r *Ring, now time.Time) map[string]string {
	bufD, bufH, bufZ := MakeBuffersForGet()
	out := map[string]string{}
	for _, k := range []uint32{0, 5, 1 << 31, 1<<32 - 1} {
		rs, err := r.Get(k, Write, bufD, bufH, bufZ)
		out[fmt.Sprintf("get:%d", k)] = verifC13Set(rs, err)
	}
	rs, err := r.GetReplicationSetForOperation(Read)
	out["readset"] = verifC13Set(rs, err)
	out["counts"] = fmt.Sprintf("%d %d %d %d", r.InstancesCount(), r.InstancesWithTokensCount(), r.ZonesCount(), r.WritableInstancesWithTokensCount())
	for _, z := range []string{"z0", "z1"} {
		out["zone:"+z] = fmt.Sprintf("%d %d", r.InstancesInZoneCount(z), r.WritableInstancesWithTokensInZoneCount(z))
	}
	for _, tenant := range []string{"t1", "t2"} {
		for _, size := range []int{1, 2, 4} {
			sh := r.ShuffleShard(tenant, size)
			rs, err := sh.GetAllHealthy(Reporting)
			out[fmt.Sprintf("shard:%s:%d", tenant, size)] = verifC13Set(rs, err)
			rs2, err2 := sh.Get(7, Write, bufD, bufH, bufZ)
			out[fmt.Sprintf("shard-get:%s:%d", tenant, size)] = verifC13Set(rs2, err2)
			for _, lb := range []time.Duration{time.Minute, time.Hour} {
				for _, at := range []time.Time{now, now.Add(-30 * time.Minute), now.Add(10 * time.Minute)} {
					shl := r.ShuffleShardWithLookback(tenant, size, lb, at)
					rs3, err3 := shl.GetAllHealthy(Reporting)
					out[fmt.Sprintf("shard-lb:%s:%d:%v:%d", tenant, size, lb, at.Unix()-now.Unix())] = verifC13Set(rs3, err3)
				}
			}
		}
	}
	for id := range r.ringDesc.Ingesters {
		tr, err := r.GetTokenRangesForInstance(id)
		out["ranges:"+id] = fmt.Sprint(tr, err)
	}
	return out
}

func TestVerifBounded_C13_History(t *testing.T) {
	seed := int64(1)
	fmt.Sscan(os.Getenv("VERIF_SEED"), &seed)
	runs := 60
	if os.Getenv("VERIF_TIER") == "thorough" {
		runs = 1200
	}
	cases, fails := 0, 0
	report := func(id, msg string) {
		fails++
		if fails <= 5 {
			fmt.Printf("BOUNDED-VIOLATION case=%s %s\n", id, msg)
		}
	}
	now := time.Now().Truncate(time.Second)
	for run := 0; run < runs; run++ {
		rnd := rand.New(rand.NewSource(seed*15485863 + int64(run)))
		zoneAware := rnd.Intn(2) == 0
		rf := 1 + rnd.Intn(2)
		if zoneAware {
			rf = 2
		}
		long := verifC13Client(t, rf, zoneAware)
		desc := NewDesc()
		var trace []string
		for step := 0; step < 12; step++ {
			cases++
			id := fmt.Sprintf("i%d", rnd.Intn(4))
			switch rnd.Intn(7) {
			case 0, 1: // (re)register with tokens
				var toks []uint32
				for k := 0; k < 1+rnd.Intn(2); k++ {
					toks = append(toks, uint32(rnd.Intn(6))*715827882+uint32(len(id))+uint32(id[1]-'0'))
				}
				sort.Slice(toks, func(a, b int) bool { return toks[a] < toks[b] })
				reg := verifC13Stamp(rnd, now)
				desc.AddIngester(id, "addr-"+id, fmt.Sprintf("z%d", int(id[1]-'0')%2), toks, ACTIVE, reg, rnd.Intn(4) == 0, reg, map[uint64]uint64{1: uint64(rnd.Intn(3))})
				if rnd.Intn(2) == 0 { // an entry written by an older lifecycler: no Id inside the entry (clients fill it in from the map key)
					e := desc.Ingesters[id]
					e.Id = ""
					desc.Ingesters[id] = e
				}
				trace = append(trace, "register "+id)
			case 2: // heartbeat / state only
				if e, ok := desc.Ingesters[id]; ok {
					e.Timestamp = now.Unix() - int64(rnd.Intn(3))*100
					e.State = []InstanceState{ACTIVE, LEAVING, JOINING}[rnd.Intn(3)]
					desc.Ingesters[id] = e
					trace = append(trace, "state "+id)
				}
			case 3: // versions only
				if e, ok := desc.Ingesters[id]; ok {
					e.Versions = map[uint64]uint64{1: uint64(rnd.Intn(5)), 2: uint64(step)}
					desc.Ingesters[id] = e
					trace = append(trace, "versions "+id)
				}
			case 4: // read-only toggle
				if e, ok := desc.Ingesters[id]; ok {
					e.ReadOnly = !e.ReadOnly
					e.ReadOnlyUpdatedTimestamp = verifC13Stamp(rnd, now).Unix()
					desc.Ingesters[id] = e
					trace = append(trace, "readonly "+id)
				}
			case 5:
				delete(desc.Ingesters, id)
				trace = append(trace, "remove "+id)
			case 6: // queries in between (fill the caches)
				_ = verifC13Answers(long, now)
				trace = append(trace, "query")
				continue
			}
			long.updateRingState(desc.Clone().(*Desc))
			if rnd.Intn(2) == 0 {
				_ = verifC13Answers(long, now)
			}
			fresh := verifC13Client(t, rf, zoneAware)
			fresh.updateRingState(desc.Clone().(*Desc))
			a, b := verifC13Answers(long, now), verifC13Answers(fresh, now)
			for k, v := range b {
				if a[k] != v {
					report(fmt.Sprintf("c13:%s", k), fmt.Sprintf("run %d step %d (rf=%d zoneAware=%v): long-lived client answers %s, a fresh client %s; trace %v", run, step, rf, zoneAware, a[k], v, trace))
				}
			}
		}
	}
	fmt.Printf("BOUNDED-CASES name=C13_History n=%d distinct=%d bound=%d runs x 12 ring updates over 4 instances / 2 zones (register with or without the Id field, state/heartbeat only, versions only, read-only toggle, removal; registration and read-only change times on/next to the look-back window starts) with queries in between; answers compared with a fresh client: lookups, read set, counts, shards (sizes 1,2,4; 2 tenants; look-back 1m/1h at 3 query times), token ranges; seed %d\n", cases, cases, runs, seed)
	if fails > 0 {
		t.Fatalf("%d mismatches", fails)
	}
}

// Look-back cache validity boundary: for every offset of a member's registration / read-only change time from the start
// of the first query's window (-2..+2 s) and every later query time, the long-lived client (cache filled by the first
// query) answers like a fresh one.
func TestVerifBounded_C13_LookbackBoundary(t *testing.T) {
	cases, fails := 0, 0
	now := time.Now().Truncate(time.Second)
	lb := time.Minute
	for _, readOnly := range []bool{true, false} {
		for _, which := range []string{"readonly-ts", "registered-ts"} {
			for off := -2; off <= 2; off++ {
				for _, later := range []time.Duration{time.Second, 2 * time.Second, 10 * time.Minute} {
					cases++
					stamp := now.Add(-lb).Add(time.Duration(off) * time.Second)
					old := now.Add(-3 * time.Hour)
					desc := NewDesc()
					for i, id := range []string{"a", "b", "c", "d"} {
						reg, ro, rots := old, false, time.Time{}
						if id == "a" {
							ro = readOnly
							if which == "readonly-ts" {
								rots = stamp
							} else {
								reg = stamp
								if ro {
									rots = old
								}
							}
						}
						desc.AddIngester(id, "addr-"+id, "z0", []uint32{uint32(i+1) * 1000000, uint32(i+1)*1000000 + 500000000}, ACTIVE, reg, ro, rots, nil)
					}
					long := verifC13Client(t, 1, false)
					long.updateRingState(desc.Clone().(*Desc))
					fresh := verifC13Client(t, 1, false)
					fresh.updateRingState(desc.Clone().(*Desc))
					for _, tenant := range []string{"t1", "t2", "t3"} {
						for _, size := range []int{1, 2, 3} {
							_ = long.ShuffleShardWithLookback(tenant, size, lb, now) // fills the cache for window start now-lb
							la, lerr := long.ShuffleShardWithLookback(tenant, size, lb, now.Add(later)).GetAllHealthy(Reporting)
							fa, ferr := fresh.ShuffleShardWithLookback(tenant, size, lb, now.Add(later)).GetAllHealthy(Reporting)
							if a, b := verifC13Set(la, lerr), verifC13Set(fa, ferr); a != b {
								fails++
								if fails <= 5 {
									fmt.Printf("BOUNDED-VIOLATION case=c13:lb-boundary:%s:readOnly=%v:offset=%ds:later=%v:%s:%d long-lived client (cache filled at window start T) answers %s, a fresh client %s\n", which, readOnly, off, later, tenant, size, a, b)
								}
							}
						}
					}
				}
			}
		}
	}
	fmt.Printf("BOUNDED-CASES name=C13_LookbackBoundary n=%d distinct=%d bound=4 instances, one with its registration / read-only change time at offsets -2..+2 s from the first query's window start, later queries +1 s, +2 s, +10 min, 3 tenants x sizes 1..3\n", cases, cases)
	if fails > 0 {
		t.Fatalf("%d mismatches", fails)
	}
}
