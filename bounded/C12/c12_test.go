// verif-pkg: ring
//
// Bounded stand-in / replay harness for C12 (NOT proof): shuffle shards of small rings executed on the real code.
package ring

import (
	"fmt"
	"math/rand"
	"os"
	"sort"
	"testing"
	"time"
)

type verifC12Inst struct {
	id, zone string
	tokens   []uint32
	readOnly bool
	regAgo   time.Duration // registered that long ago
	roAgo    time.Duration // read-only flag changed that long ago (0 = never)
}

func verifC12Ring(insts []verifC12Inst, zoneAware bool, now time.Time) *Ring {
	d := NewDesc()
	for _, in := range insts {
		ro := time.Time{}
		if in.roAgo > 0 {
			ro = now.Add(-in.roAgo)
		}
		d.AddIngester(in.id, "addr-"+in.id, in.zone, in.tokens, ACTIVE, now.Add(-in.regAgo), in.readOnly, ro, nil)
	}
	rf := 1
	return verifBuildRing(d, rf, zoneAware)
}

func verifC12Members(r ReadRing) []string {
	rs, err := r.GetAllHealthy(Reporting)
	if err != nil {
		return nil
	}
	var ids []string
	for _, in := range rs.Instances {
		ids = append(ids, in.Id)
	}
	sort.Strings(ids)
	return ids
}

func verifSubset(a, b []string) bool {
	m := map[string]bool{}
	for _, x := range b {
		m[x] = true
	}
	for _, x := range a {
		if !m[x] {
			return false
		}
	}
	return true
}

func TestVerifBounded_C12_Shards(t *testing.T) {
	seed := int64(1)
	fmt.Sscan(os.Getenv("VERIF_SEED"), &seed)
	rings := 1500
	if os.Getenv("VERIF_TIER") == "thorough" {
		rings = 20000
	}
	rnd := rand.New(rand.NewSource(seed))
	now := time.Now()
	cases, distinct, fails := 0, 0, 0
	report := func(id, msg string) {
		fails++
		if fails <= 5 {
			fmt.Printf("BOUNDED-VIOLATION case=%s %s\n", id, msg)
		}
	}
	alpha := []uint32{0, 1, 9, 1 << 30, 1 << 31, 3 << 30, 1<<32 - 2, 1<<32 - 1, 77, 1 << 20}
	for it := 0; it < rings; it++ {
		zoneAware := rnd.Intn(2) == 0
		nz := 1
		if zoneAware {
			nz = 1 + rnd.Intn(3)
		}
		n := nz + rnd.Intn(6-nz+1)
		perm := rnd.Perm(len(alpha))
		var insts []verifC12Inst
		ti := 0
		for i := 0; i < n && ti < len(perm); i++ {
			k := 1 + rnd.Intn(2)
			var toks []uint32
			for ; k > 0 && ti < len(perm); k-- {
				toks = append(toks, alpha[perm[ti]])
				ti++
			}
			sort.Slice(toks, func(a, b int) bool { return toks[a] < toks[b] })
			zone := ""
			if zoneAware {
				zone = fmt.Sprintf("z%d", i%nz)
			}
			in := verifC12Inst{id: fmt.Sprintf("i%d", i), zone: zone, tokens: toks, regAgo: time.Duration(1+rnd.Intn(5)) * time.Hour}
			if rnd.Intn(4) == 0 {
				in.readOnly = true
				in.roAgo = time.Duration(1+rnd.Intn(4)) * time.Hour
			}
			if rnd.Intn(5) == 0 {
				in.regAgo = time.Duration(1+rnd.Intn(50)) * time.Minute
			}
			if rnd.Intn(6) == 0 && !in.readOnly {
				in.roAgo = time.Duration(1+rnd.Intn(50)) * time.Minute // switched back to read-write recently
			}
			insts = append(insts, in)
		}
		r := verifC12Ring(insts, zoneAware, now)
		distinct++
		eligible := map[string]int{} // per zone: writable instances with tokens
		for _, in := range insts {
			if !in.readOnly && len(in.tokens) > 0 {
				eligible[in.zone]++
			}
		}
		id := fmt.Sprintf("c12:%+v:za=%v", insts, zoneAware)
		var prev []string
		for size := 1; size <= n+1; size++ {
			for _, tenant := range []string{"t1", "tenant-2"} {
				cases++
				sh := verifC12Members(r.ShuffleShard(tenant, size))
				// deterministic: a second client built from the same content agrees
				r2 := verifC12Ring(insts, zoneAware, now)
				if fmt.Sprint(verifC12Members(r2.ShuffleShard(tenant, size))) != fmt.Sprint(sh) {
					report(id+":deterministic", fmt.Sprintf("size %d tenant %s: two clients of the same ring disagree", size, tenant))
				}
				// right-sized, evenly spread, read-only excluded
				perZone := map[string]int{}
				byID := map[string]verifC12Inst{}
				for _, in := range insts {
					byID[in.id] = in
				}
				for _, m := range sh {
					perZone[byID[m].zone]++
					if byID[m].readOnly {
						report(id+":readonly", fmt.Sprintf("size %d tenant %s: read-only instance %s in the shard %v", size, tenant, m, sh))
					}
				}
				want := (size + nz - 1) / nz
				for z, el := range eligible {
					exp := want
					if el < exp {
						exp = el
					}
					if perZone[z] != exp {
						report(id+":size", fmt.Sprintf("size %d tenant %s: zone %q has %d shard members, expected min(ceil(%d/%d), %d eligible) = %d; shard %v", size, tenant, z, perZone[z], size, nz, el, exp, sh))
					}
				}
				// look-back variants return supersets of the plain shard
				for _, lb := range []time.Duration{30 * time.Minute, 3 * time.Hour, 10 * time.Hour} {
					shl := verifC12Members(r.ShuffleShardWithLookback(tenant, size, lb, now))
					if !verifSubset(sh, shl) {
						report(id+":lookback-superset", fmt.Sprintf("size %d tenant %s look-back %v: %v does not contain the current shard %v", size, tenant, lb, shl, sh))
					}
				}
				if tenant == "t1" {
					if size > 1 && !verifSubset(prev, sh) {
						report(id+":monotone", fmt.Sprintf("shard of size %d %v does not contain the shard of size %d %v", size, sh, size-1, prev))
					}
					prev = sh
				}
			}
		}
		// look-back as history: if exactly one instance changed inside the window (registered, or toggled read-only),
		// the ring "as it was before that change" is known, and every still-registered member of its shard must be
		// in the look-back shard.
		lb := 3 * time.Hour
		var recent []int
		for i, in := range insts {
			// a change stamped with the very second the window starts in may have happened inside the window
			if in.regAgo <= lb || (in.roAgo > 0 && in.roAgo <= lb) {
				recent = append(recent, i)
			}
		}
		if len(recent) == 1 {
			v := recent[0]
			var before []verifC12Inst
			for i, in := range insts {
				if i == v {
					if in.regAgo <= lb {
						continue // not registered yet
					}
					in.readOnly = !in.readOnly // the flag was toggled inside the window
					in.roAgo = 0
				}
				before = append(before, in)
			}
			zonesBefore := map[string]bool{}
			for _, in := range before {
				zonesBefore[in.zone] = true
			}
			zonesNow := map[string]bool{}
			for _, in := range insts {
				zonesNow[in.zone] = true
			}
			if len(before) > 0 && len(zonesBefore) == len(zonesNow) {
				rb := verifC12Ring(before, zoneAware, now.Add(-lb))
				for size := 1; size <= n; size++ {
					cases++
					was := verifC12Members(rb.ShuffleShard("t1", size))
					shl := verifC12Members(r.ShuffleShardWithLookback("t1", size, lb, now))
					if !verifSubset(was, shl) {
						report(id+":lookback-history", fmt.Sprintf("size %d: before %s changed (inside the %v window) the shard was %v, but the look-back shard is %v", size, insts[v].id, lb, was, shl))
					}
				}
			}
		}
		// consistency: removing one instance (zone set unchanged, every instance holds a token) changes a shard by at most one instance
		for victim := range insts {
			zcount := 0
			for _, in := range insts {
				if in.zone == insts[victim].zone {
					zcount++
				}
			}
			if zcount < 2 {
				continue // the zone set would change
			}
			var rest []verifC12Inst
			for i, in := range insts {
				if i != victim {
					rest = append(rest, in)
				}
			}
			rr := verifC12Ring(rest, zoneAware, now)
			for size := 1; size <= n; size++ {
				cases++
				a := verifC12Members(r.ShuffleShard("t1", size))
				b := verifC12Members(rr.ShuffleShard("t1", size))
				diff := 0
				am := map[string]bool{}
				for _, x := range a {
					am[x] = true
				}
				for _, x := range b {
					if !am[x] {
						diff++
					}
				}
				if diff > 1 {
					report(id+":consistency", fmt.Sprintf("size %d: removing %s changed the shard from %v to %v (%d new members)", size, insts[victim].id, a, b, diff))
				}
			}
		}
	}
	fmt.Printf("BOUNDED-CASES name=C12_Shards n=%d distinct=%d bound=%d random rings (<=6 instances with 1..2 tokens from a 10-token boundary alphabet, <=3 zones, read-only flags, recent registrations/switches), sizes 1..n+1, 2 tenants, look-back 30m/3h/10h; consistency only for removals that keep the zone set (every instance holds a token), seed %d\n", cases, distinct, rings, seed)
	if fails > 0 {
		t.Fatalf("%d mismatches", fails)
	}
}

func TestVerifBounded_C12_ExpectedPerZone(t *testing.T) {
	cases, fails := 0, 0
	for zones := 1; zones <= 8; zones++ {
		for size := 1; size <= 4096; size++ {
			cases++
			want := (size + zones - 1) / zones
			if got := shardExpected(size, zones); got != want {
				fails++
				if fails <= 5 {
					fmt.Printf("BOUNDED-VIOLATION case=c12-ceil:size=%d:zones=%d got %d want %d\n", size, zones, got, want)
				}
			}
		}
	}
	fmt.Printf("BOUNDED-CASES name=C12_ExpectedPerZone n=%d distinct=%d bound=sizes 1..4096 x zones 1..8: ceil(size/zones) through float64\n", cases, cases)
	if fails > 0 {
		t.Fatalf("%d mismatches", fails)
	}
}
