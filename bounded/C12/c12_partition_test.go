// verif-pkg: ring
//
// Bounded stand-in / replay harness for C12, partition ring part (NOT proof): shuffle shards of small partition rings
// with partitions in every state, against the statement: deterministic, right-sized over ACTIVE partitions, containing
// the shard of every smaller size; the look-back variant contains every still registered partition that belonged to the
// identifier's shard of that size at any moment of the window (reconstructed from a recorded history of state changes).
package ring

import (
	"fmt"
	"math/rand"
	"os"
	"sort"
	"testing"
	"time"
)

func verifC12PIDs(r *PartitionRing) []int32 {
	ids := append([]int32{}, r.PartitionIDs()...)
	sort.Slice(ids, func(a, b int) bool { return ids[a] < ids[b] })
	return ids
}

func verifC12PRing(t *testing.T, parts map[int32]PartitionDesc) *PartitionRing {
	d := NewPartitionRingDesc()
	for id, p := range parts {
		p.Tokens = append([]uint32{}, p.Tokens...)
		d.Partitions[id] = p
	}
	r, err := NewPartitionRing(*d)
	if err != nil {
		t.Fatal(err)
	}
	return r
}

func TestVerifBounded_C12_PartitionShards(t *testing.T) {
	seed := int64(1)
	fmt.Sscan(os.Getenv("VERIF_SEED"), &seed)
	runs := 150
	if os.Getenv("VERIF_TIER") == "thorough" {
		runs = 3000
	}
	cases, fails := 0, 0
	report := func(id, msg string) {
		fails++
		if fails <= 5 {
			fmt.Printf("BOUNDED-VIOLATION case=%s %s\n", id, msg)
		}
	}
	base := time.Unix(1_700_000_000, 0)
	type change struct {
		at    int64
		id    int32
		state PartitionState
	}
	for run := 0; run < runs; run++ {
		rnd := rand.New(rand.NewSource(seed*7919 + int64(run)))
		n := 1 + rnd.Intn(7)
		// history: every partition is created at some second in [0,100), then changes state a few times up to second 300
		var hist []change
		tokens := map[int32][]uint32{}
		for id := int32(0); id < int32(n); id++ {
			var toks []uint32
			for k := 0; k < 1+rnd.Intn(3); k++ {
				toks = append(toks, uint32(rnd.Intn(40))*107374182+uint32(id)*13+uint32(k))
			}
			sort.Slice(toks, func(a, b int) bool { return toks[a] < toks[b] })
			tokens[id] = toks
			at := int64(rnd.Intn(100))
			st := []PartitionState{PartitionPending, PartitionActive, PartitionActive}[rnd.Intn(3)]
			hist = append(hist, change{at, id, st})
			for k := 0; k < rnd.Intn(3); k++ {
				at += 1 + int64(rnd.Intn(100))
				switch st {
				case PartitionPending:
					st = []PartitionState{PartitionActive, PartitionInactive}[rnd.Intn(2)]
				case PartitionActive:
					st = PartitionInactive
				default:
					st = PartitionActive
				}
				hist = append(hist, change{at, id, st})
			}
		}
		sort.SliceStable(hist, func(a, b int) bool { return hist[a].at < hist[b].at })
		// ring content as of second s (only what the descriptor records: last state and its time)
		contentAt := func(s int64) map[int32]PartitionDesc {
			out := map[int32]PartitionDesc{}
			for _, c := range hist {
				if c.at <= s {
					out[c.id] = PartitionDesc{Id: c.id, Tokens: tokens[c.id], State: c.state, StateTimestamp: base.Unix() + c.at}
				}
			}
			return out
		}
		nowS := int64(100 + rnd.Intn(250))
		now := base.Add(time.Duration(nowS) * time.Second)
		cur := contentAt(nowS)
		if len(cur) == 0 {
			continue
		}
		ring := verifC12PRing(t, cur)
		ring2 := verifC12PRing(t, cur)
		active := 0
		for _, p := range cur {
			if p.State == PartitionActive {
				active++
			}
		}
		for _, tenant := range []string{"t1", "t2", "tenant-3"} {
			var prev []int32
			for size := -1; size <= len(cur)+1; size++ {
				cases++
				tag := fmt.Sprintf("c12p:run=%d:%s:size=%d", run, tenant, size)
				sh, err := ring.ShuffleShard(tenant, size)
				if err != nil {
					if active == 0 {
						continue
					}
					report(tag+":error", err.Error())
					continue
				}
				ids := verifC12PIDs(sh)
				sh2, _ := ring2.ShuffleShard(tenant, size)
				if sh2 == nil || fmt.Sprint(verifC12PIDs(sh2)) != fmt.Sprint(ids) {
					report(tag+":deterministic", fmt.Sprintf("%v vs a second ring built from the same content", ids))
				}
				want := size
				if size <= 0 || size > active {
					want = active
				}
				if len(ids) != want {
					report(tag+":size", fmt.Sprintf("shard %v has %d partitions, expected %d (active %d of %d)", ids, len(ids), want, active, len(cur)))
				}
				for _, id := range ids {
					if cur[id].State != PartitionActive {
						report(tag+":active-only", fmt.Sprintf("shard %v contains partition %d in state %v", ids, id, cur[id].State))
					}
				}
				if size >= 2 {
					in := map[int32]bool{}
					for _, id := range ids {
						in[id] = true
					}
					for _, id := range prev {
						if !in[id] {
							report(tag+":monotone", fmt.Sprintf("shard of size %d %v lacks %d of the shard of size %d %v", size, ids, id, size-1, prev))
						}
					}
				}
				if size >= 1 {
					prev = ids
				}
				// look-back: every shard the identifier had at any second of the window, restricted to partitions still registered
				for _, lbS := range []int64{1, 30, 120, 400} {
					lb, err := ring.ShuffleShardWithLookback(tenant, size, time.Duration(lbS)*time.Second, now)
					if err != nil {
						report(tag+fmt.Sprintf(":lookback=%ds:error", lbS), err.Error())
						continue
					}
					got := map[int32]bool{}
					for _, id := range verifC12PIDs(lb) {
						got[id] = true
						if cur[id].State == PartitionPending {
							report(tag+fmt.Sprintf(":lookback=%ds:pending", lbS), fmt.Sprintf("pending partition %d returned", id))
						}
					}
					moments := []int64{nowS, nowS - lbS}
					for _, c := range hist {
						if c.at >= nowS-lbS && c.at <= nowS {
							moments = append(moments, c.at, c.at-1)
						}
					}
					for _, m := range moments {
						if m < nowS-lbS || m > nowS || m < 0 {
							continue
						}
						past := contentAt(m)
						if len(past) == 0 {
							continue
						}
						pr := verifC12PRing(t, past)
						psh, err := pr.ShuffleShard(tenant, size)
						if err != nil {
							continue
						}
						for _, id := range verifC12PIDs(psh) {
							if _, still := cur[id]; still && !got[id] {
								report(tag+fmt.Sprintf(":lookback=%ds:superset", lbS), fmt.Sprintf("partition %d was in the shard at second %d (window [%d,%d]) but the look-back shard is %v; history %v", id, m, nowS-lbS, nowS, verifC12PIDs(lb), hist))
							}
						}
					}
				}
			}
		}
	}
	fmt.Printf("BOUNDED-CASES name=C12_PartitionShards n=%d distinct=%d bound=%d random partition rings of 1..7 partitions (1..3 tokens each, collisions possible across the token space) with histories of PENDING/ACTIVE/INACTIVE changes, 3 identifiers x sizes -1..n+1: deterministic, size over active partitions, active only, contains the smaller shard; look-back 1 s/30 s/120 s/400 s contains the still registered members of the shard at every change moment of the window; seed %d\n", cases, cases, runs, seed)
	if fails > 0 {
		t.Fatalf("%d mismatches", fails)
	}
}
