// verif-pkg: kv/memberlist
//
// Bounded stand-in / replay harness for C06 (NOT proof): the supersession rule of queued broadcasts.
package memberlist

import (
	"fmt"
	"testing"
)

// Supersession rule, exhaustively on short content lists WITH duplicate and empty names (the partition ring's
// MergeContent starts with empty strings): a queued update is invalidated exactly when the newer update is for the same
// key, at least as new, and mentions every name of the old one.
func TestVerifBounded_C06_Invalidates(t *testing.T) {
	cases, fails := 0, 0
	names := []string{"", "a", "b"}
	var lists [][]string
	var gen func(cur []string, n int)
	gen = func(cur []string, n int) {
		lists = append(lists, append([]string{}, cur...))
		if n == 0 {
			return
		}
		for _, x := range names {
			gen(append(cur, x), n-1)
		}
	}
	gen(nil, 4)
	for _, oldc := range lists {
		for _, newc := range lists {
			for _, dv := range []int{-1, 0, 1} {
				for _, sameKey := range []bool{true, false} {
					cases++
					o := ringBroadcast{key: "k", content: oldc, version: 5}
					n := ringBroadcast{key: "k", content: newc, version: uint(5 + dv)}
					if !sameKey {
						n.key = "other"
					}
					in := map[string]bool{}
					for _, x := range newc {
						in[x] = true
					}
					want := sameKey && dv >= 0
					for _, x := range oldc {
						if !in[x] {
							want = false
						}
					}
					if got := n.Invalidates(o); got != want {
						fails++
						if fails <= 5 {
							fmt.Printf("BOUNDED-VIOLATION case=c06-invalidates:old=%q:new=%q:dv=%d:sameKey=%v Invalidates=%v, the newer update %s every name of the queued one\n", oldc, newc, dv, sameKey, got, map[bool]string{true: "contains", false: "does not contain"}[want || !sameKey || dv < 0])
						}
					}
				}
			}
		}
	}
	fmt.Printf("BOUNDED-CASES name=C06_Invalidates n=%d distinct=%d bound=all pairs of content lists of length <= 4 over {\"\", a, b} (duplicates included) x version older/equal/newer x same/other key\n", cases, cases)
	if fails > 0 {
		t.Fatalf("%d mismatches", fails)
	}
}
