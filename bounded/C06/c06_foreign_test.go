// verif-pkg: ring
//
// Bounded stand-in / replay harness for C06 (NOT proof): a full-state exchange that carries an entry whose codec the
// receiver does not know. The entry is dropped on its own; every other entry of the same exchange is still merged,
// whatever the position of the foreign entry in the stream.
package ring

import (
	"context"
	"encoding/binary"
	"fmt"
	"testing"
	"time"

	"github.com/grafana/dskit/kv/codec"
	"github.com/grafana/dskit/kv/memberlist"
	"github.com/grafana/dskit/services"
)

func verifC06SplitState(t *testing.T, b []byte) [][]byte {
	var out [][]byte
	for len(b) > 0 {
		if len(b) < 4 {
			t.Fatal("truncated state")
		}
		n := int(binary.BigEndian.Uint32(b))
		if len(b) < 4+n {
			t.Fatal("truncated state")
		}
		out = append(out, b[:4+n])
		b = b[4+n:]
	}
	return out
}

func TestVerifBounded_C06_ForeignCodecInFullState(t *testing.T) {
	ctx := context.Background()
	cases, fails := 0, 0
	// the sender knows the ring and the partition-ring codec, the receiver only the ring codec
	sender, scl := verifNewKV(t, nil)
	pcl, err := memberlist.NewClient(sender, GetPartitionRingCodec())
	if err != nil {
		t.Fatal(err)
	}
	if err := scl.CAS(ctx, "ring", func(in interface{}) (interface{}, bool, error) {
		d := NewDesc()
		d.AddIngester("a", "addr-a", "z", []uint32{1, 2, 3}, ACTIVE, time.Unix(100, 0), false, time.Time{}, nil)
		return d, true, nil
	}); err != nil {
		t.Fatal(err)
	}
	if err := pcl.CAS(ctx, "partitions", func(in interface{}) (interface{}, bool, error) {
		d := NewPartitionRingDesc()
		d.AddPartition(1, PartitionActive, time.Unix(100, 0))
		return d, true, nil
	}); err != nil {
		t.Fatal(err)
	}
	entries := verifC06SplitState(t, sender.LocalState(false))
	if len(entries) != 2 {
		t.Fatalf("expected 2 entries in the sender's state, got %d", len(entries))
	}
	for _, order := range [][]int{{0, 1}, {1, 0}} {
		cases++
		receiver, rcl := verifNewKV(t, func(cfg *memberlist.KVConfig) { cfg.Codecs = []codec.Codec{GetCodec()} })
		var state []byte
		for _, i := range order {
			state = append(state, entries[i]...)
		}
		receiver.MergeRemoteState(state, false)
		v, err := rcl.Get(ctx, "ring")
		d, _ := v.(*Desc)
		if err != nil || d == nil || len(d.Ingesters["a"].Tokens) != 3 {
			fails++
			fmt.Printf("BOUNDED-VIOLATION case=c06-foreign-codec:order=%v after a full-state exchange carrying one entry with an unknown codec the receiver's ring is %v (err %v): the known entry of the same exchange was not merged\n", order, v, err)
		}
		_ = services.StopAndAwaitTerminated(ctx, receiver)
	}
	_ = services.StopAndAwaitTerminated(ctx, sender)
	fmt.Printf("BOUNDED-CASES name=C06_ForeignCodec n=%d distinct=%d bound=one full-state message with a ring entry and a partition-ring entry delivered to a receiver that only knows the ring codec, both entry orders\n", cases, cases)
	if fails > 0 {
		t.Fatalf("%d mismatches", fails)
	}
}
