// verif-pkg: ring
//
// Bounded stand-in / replay harness for C06 (NOT proof): an acknowledged CAS whose gossip is lost completely still reaches
// every node through the full-state exchange alone, whatever the CAS did: add an entry, change one, or REMOVE one (a
// removal exists only as a tombstone inside the stored value, so the exchange has to carry the value as stored).
package ring

import (
	"context"
	"fmt"
	"testing"
	"time"

	"github.com/grafana/dskit/services"
)

func TestVerifBounded_C06_FullStateExchangeAlone(t *testing.T) {
	ctx := context.Background()
	cases, fails := 0, 0
	report := func(id, msg string) {
		fails++
		if fails <= 5 {
			fmt.Printf("BOUNDED-VIOLATION case=%s %s\n", id, msg)
		}
	}
	view := func(v interface{}) string {
		if v == nil {
			return "<nil>"
		}
		return verifC06View(v)
	}
	for _, nodes := range []int{2, 3} {
		for _, op := range []string{"add", "change", "remove", "remove-last"} {
			cases++
			id := fmt.Sprintf("c06-pushpull-only:nodes=%d:op=%s", nodes, op)
			kvs := make([]interface {
				LocalState(bool) []byte
				MergeRemoteState([]byte, bool)
				GetBroadcasts(int, int) [][]byte
			}, nodes)
			type getter interface {
				Get(context.Context, string) (interface{}, error)
				CAS(context.Context, string, func(interface{}) (interface{}, bool, error)) error
			}
			cls := make([]getter, nodes)
			var stops []func()
			for i := 0; i < nodes; i++ {
				kv, cl := verifNewKV(t, nil)
				kvs[i], cls[i] = kv, cl
				stops = append(stops, func() { _ = services.StopAndAwaitTerminated(ctx, kv) })
			}
			exchangeAll := func() {
				for round := 0; round < 2; round++ {
					for i := 0; i < nodes; i++ {
						for j := 0; j < nodes; j++ {
							if i != j {
								kvs[j].MergeRemoteState(kvs[i].LocalState(false), false)
							}
						}
					}
				}
			}
			drop := func() { // every queued broadcast of every node is lost
				for r := 0; r < 20; r++ {
					for i := 0; i < nodes; i++ {
						_ = kvs[i].GetBroadcasts(0, 1<<24)
					}
				}
			}
			now := time.Now().Unix()
			// common starting state, spread by full-state exchange
			_ = cls[0].CAS(ctx, "ring", func(in interface{}) (interface{}, bool, error) {
				d := GetOrCreateRingDesc(in)
				d.AddIngester("ing-1", "a1", "z", []uint32{10}, ACTIVE, time.Unix(now-100, 0), false, time.Time{}, nil)
				if op != "remove-last" {
					d.AddIngester("ing-2", "a2", "z", []uint32{20}, ACTIVE, time.Unix(now-100, 0), false, time.Time{}, nil)
				}
				return d, true, nil
			})
			drop()
			exchangeAll()
			// the acknowledged CAS on node 0; its gossip is lost entirely
			err := cls[0].CAS(ctx, "ring", func(in interface{}) (interface{}, bool, error) {
				d := GetOrCreateRingDesc(in)
				switch op {
				case "add":
					d.AddIngester("ing-3", "a3", "z", []uint32{30}, ACTIVE, time.Unix(now, 0), false, time.Time{}, nil)
				case "change":
					e := d.Ingesters["ing-2"]
					e.State, e.Timestamp = LEAVING, now+10 // strictly newer than the entry (AddIngester stamps the current second)
					d.Ingesters["ing-2"] = e
				case "remove":
					d.RemoveIngester("ing-2")
				case "remove-last":
					d.RemoveIngester("ing-1")
				}
				return d, true, nil
			})
			if err != nil {
				report(id, fmt.Sprintf("CAS failed: %v", err))
			}
			drop()
			// messages flow again: only full-state exchanges
			exchangeAll()
			v0, _ := cls[0].Get(ctx, "ring")
			for i := 1; i < nodes; i++ {
				ok := false
				var vi interface{}
				for w := 0; w < 3000 && !ok; w++ {
					vi, _ = cls[i].Get(ctx, "ring")
					ok = view(vi) == view(v0)
					if !ok {
						time.Sleep(2 * time.Millisecond)
					}
				}
				if !ok {
					report(id, fmt.Sprintf("after full-state exchanges node 0 (where the CAS was acknowledged) exposes %q but node %d exposes %q", view(v0), i, view(vi)))
				}
			}
			for _, s := range stops {
				s()
			}
		}
	}
	fmt.Printf("BOUNDED-CASES name=C06_FullStateExchangeAlone n=%d distinct=%d bound=2 and 3 nodes x {add, change, remove, remove the last entry}: every broadcast is dropped, only full-state exchanges run\n", cases, cases)
	if fails > 0 {
		t.Fatalf("%d violations", fails)
	}
}
