// verif-pkg: ring
//
// Bounded stand-in / replay harness for C06 (NOT proof): three isolated memberlist KVs; every message is delivered by
// hand (lost, duplicated, reordered, delayed), then messages "flow again" (all pending broadcasts + full-state exchanges).
package ring

import (
	"context"
	"fmt"
	"math/rand"
	"os"
	"sort"
	"sync"
	"testing"
	"time"

	"github.com/grafana/dskit/kv/memberlist"
)

func verifC06View(v interface{}) string {
	if v == nil {
		return "<nil>"
	}
	d := v.(*Desc)
	var ids []string
	for id := range d.Ingesters {
		ids = append(ids, id)
	}
	sort.Strings(ids)
	s := ""
	for _, id := range ids {
		e := d.Ingesters[id]
		s += fmt.Sprintf("%s:%d:%v:%v;", id, e.Timestamp, e.State, e.Tokens)
	}
	return s
}

func TestVerifBounded_C06_Gossip(t *testing.T) {
	seed := int64(1)
	fmt.Sscan(os.Getenv("VERIF_SEED"), &seed)
	runs := 12
	if os.Getenv("VERIF_TIER") == "thorough" {
		runs = 150
	}
	cases, fails := 0, 0
	report := func(id, msg string) {
		fails++
		if fails <= 5 {
			fmt.Printf("BOUNDED-VIOLATION case=%s %s\n", id, msg)
		}
	}
	ctx := context.Background()
	keys := []string{"ring-a", "ring-b"}
	for run := 0; run < runs; run++ {
		rnd := rand.New(rand.NewSource(seed*104729 + int64(run)))
		const n = 3
		var kvs [n]*memberlist.KV
		var cls [n]*memberlist.Client
		type last struct {
			mu sync.Mutex
			v  map[string]string
		}
		var seen [n]*last
		wctx, wcancel := context.WithCancel(ctx)
		for i := 0; i < n; i++ {
			kvs[i], cls[i] = verifNewKV(t, nil)
			seen[i] = &last{v: map[string]string{}}
			for _, k := range keys {
				i, k := i, k
				go cls[i].WatchKey(wctx, k, func(v interface{}) bool {
					seen[i].mu.Lock()
					seen[i].v[k] = verifC06View(v)
					seen[i].mu.Unlock()
					return true
				})
			}
		}
		time.Sleep(300 * time.Millisecond) // let the six watcher goroutines register (also on a loaded machine)
		var pending [][3]interface{} // from, to, msg
		clock := time.Now().Unix()
		var trace []string
		for step := 0; step < 20; step++ {
			cases++
			i := rnd.Intn(n)
			switch rnd.Intn(5) {
			case 0, 1, 2: // acknowledged local CAS
				k := keys[rnd.Intn(len(keys))]
				id := fmt.Sprintf("inst-%d", rnd.Intn(3))
				clock++
				ts := clock
				remove := rnd.Intn(5) == 0
				err := cls[i].CAS(ctx, k, func(in interface{}) (interface{}, bool, error) {
					d := GetOrCreateRingDesc(in)
					if remove {
						delete(d.Ingesters, id)
					} else {
						d.AddIngester(id, "addr", "z", []uint32{uint32(ts % 1000)}, ACTIVE, time.Unix(ts, 0), false, time.Time{}, nil)
						e := d.Ingesters[id]
						e.Timestamp = ts
						d.Ingesters[id] = e
					}
					return d, false, nil
				})
				trace = append(trace, fmt.Sprintf("n%d cas %s %s remove=%v err=%v", i, k, id, remove, err))
				for _, m := range kvs[i].GetBroadcasts(0, 1<<24) {
					for j := 0; j < n; j++ {
						if j != i {
							pending = append(pending, [3]interface{}{i, j, append([]byte{}, m...)})
						}
					}
				}
			case 3: // deliver a random pending message (possibly twice, or lose it)
				if len(pending) == 0 {
					continue
				}
				p := rnd.Intn(len(pending))
				msg := pending[p]
				switch rnd.Intn(4) {
				case 0: // lost
					pending = append(pending[:p], pending[p+1:]...)
				case 1: // duplicated, stays pending
					kvs[msg[1].(int)].NotifyMsg(msg[2].([]byte))
				default:
					kvs[msg[1].(int)].NotifyMsg(msg[2].([]byte))
					pending = append(pending[:p], pending[p+1:]...)
				}
				// rebroadcasts caused by the delivery
				to := msg[1].(int)
				time.Sleep(2 * time.Millisecond)
				for _, m := range kvs[to].GetBroadcasts(0, 1<<24) {
					for j := 0; j < n; j++ {
						if j != to {
							pending = append(pending, [3]interface{}{to, j, append([]byte{}, m...)})
						}
					}
				}
			case 4: // malformed traffic must not change anything
				j := rnd.Intn(n)
				// valid messages delivered in earlier steps are merged by per-key worker goroutines: wait until the node's
				// view has stopped moving, otherwise their (legitimate) effect would be blamed on the junk below
				quiesce := func() map[string]string {
					last, stable := map[string]string{}, 0
					for tries := 0; tries < 200 && stable < 4; tries++ {
						cur := map[string]string{}
						same := tries > 0
						for _, k := range keys {
							v, _ := cls[j].Get(ctx, k)
							cur[k] = verifC06View(v)
							if cur[k] != last[k] {
								same = false
							}
						}
						if same {
							stable++
						} else {
							stable = 0
						}
						last = cur
						time.Sleep(3 * time.Millisecond)
					}
					return last
				}
				before := quiesce()
				junk := make([]byte, rnd.Intn(40))
				rnd.Read(junk)
				func() {
					defer func() {
						if p := recover(); p != nil {
							report("c06-malformed-panic", fmt.Sprintf("%v on junk %x", p, junk))
						}
					}()
					kvs[j].NotifyMsg(junk)
					kvs[j].MergeRemoteState(junk, false)
					if len(pending) > 0 {
						m := pending[rnd.Intn(len(pending))][2].([]byte)
						kvs[j].NotifyMsg(m[:len(m)/2])                                   // truncated
						kvs[j].MergeRemoteState(append([]byte{0, 0, 1, 0}, m[:len(m)/2]...), false) // length prefix larger than data
					}
					unknown := memberlist.KeyValuePair{Key: keys[0], Value: []byte("x"), Codec: "no-such-codec"}
					b, _ := unknown.Marshal()
					kvs[j].NotifyMsg(b)
					emptyKey := memberlist.KeyValuePair{Key: "", Value: []byte("x"), Codec: GetCodec().CodecID()}
					b, _ = emptyKey.Marshal()
					kvs[j].NotifyMsg(b)
					bad := memberlist.KeyValuePair{Key: keys[0], Value: []byte("not snappy protobuf"), Codec: GetCodec().CodecID()}
					b, _ = bad.Marshal()
					kvs[j].NotifyMsg(b)
				}()
				after := quiesce()
				for _, k := range keys {
					if after[k] != before[k] {
						report("c06-malformed-changed", fmt.Sprintf("node %d key %s changed from %s to %s after malformed messages", j, k, before[k], after[k]))
					}
				}
			}
		}
		// messages flow again: everything pending is delivered, then full-state exchanges until nothing changes
		for _, p := range pending {
			kvs[p[1].(int)].NotifyMsg(p[2].([]byte))
		}
		time.Sleep(10 * time.Millisecond)
		for round := 0; round < 3; round++ {
			for i := 0; i < n; i++ {
				for j := 0; j < n; j++ {
					if i != j {
						kvs[j].MergeRemoteState(kvs[i].LocalState(false), false)
					}
				}
			}
		}
		// updates handed to NotifyMsg are merged by worker goroutines: give them time to finish (they cannot add anything
		// the full-state exchanges have not delivered already, so the comparison below is stable once they are done)
		patience := 2000 // x 5 ms: generous on a loaded machine; once violations are being reported do not wait minutes for more
		if fails > 2 {
			patience = 40
		}
		for w := 0; w < patience; w++ {
			agree := true
			for _, k := range keys {
				v0, _ := cls[0].Get(ctx, k)
				for i := 1; i < n; i++ {
					vi, _ := cls[i].Get(ctx, k)
					if verifC06View(vi) != verifC06View(v0) {
						agree = false
					}
				}
			}
			if agree && w >= 5 {
				break
			}
			time.Sleep(5 * time.Millisecond)
		}
		for _, k := range keys {
			v0, _ := cls[0].Get(ctx, k)
			for i := 1; i < n; i++ {
				vi, _ := cls[i].Get(ctx, k)
				if verifC06View(vi) != verifC06View(v0) {
					report("c06-diverged", fmt.Sprintf("run %d key %s: node 0 exposes %s, node %d exposes %s; trace %v", run, k, verifC06View(v0), i, verifC06View(vi), trace))
				}
			}
			if v0 == nil {
				continue
			}
			for i := 0; i < n; i++ {
				ok := false
				for w := 0; w < patience && !ok; w++ {
					seen[i].mu.Lock()
					ok = seen[i].v[k] == verifC06View(v0)
					seen[i].mu.Unlock()
					if !ok {
						time.Sleep(5 * time.Millisecond)
					}
				}
				if !ok {
					seen[i].mu.Lock()
					report("c06-watcher", fmt.Sprintf("run %d key %s: watcher on node %d last saw %q, final value %q", run, k, i, seen[i].v[k], verifC06View(v0)))
					seen[i].mu.Unlock()
				}
			}
		}
		wcancel()
		for i := 0; i < n; i++ {
			_ = kvs[i].StopAsync
		}
	}
	fmt.Printf("BOUNDED-CASES name=C06_Gossip n=%d distinct=%d bound=%d runs x 20 steps on 3 isolated memberlist KVs, 2 keys, 3 instance ids: local CAS (add/remove), hand delivery with loss/duplication/reordering, malformed/truncated/unknown-codec/empty-key messages; then all pending messages + 3 rounds of pairwise full-state exchange, seed %d\n", cases, cases, runs, seed)
	if fails > 0 {
		t.Fatalf("%d mismatches", fails)
	}
}
