// verif-pkg: modules
//
// Bounded stand-in / replay harness for C18 (NOT proof): every dependency graph on 4 modules.
package modules

import (
	"context"
	"errors"
	"fmt"
	"os"
	"sync"
	"testing"
	"time"

	"github.com/go-kit/log"

	"github.com/grafana/dskit/services"
)

var verifNames = []string{"a", "b", "c", "d"}

func verifReach(adj [4][4]bool, from, to int) bool {
	seen := [4]bool{}
	var dfs func(x int) bool
	dfs = func(x int) bool {
		for y := 0; y < 4; y++ {
			if adj[x][y] && !seen[y] {
				if y == to {
					return true
				}
				seen[y] = true
				if dfs(y) {
					return true
				}
			}
		}
		return false
	}
	return dfs(from)
}

type verifEvents struct {
	mu  sync.Mutex
	log []string
}

func (e *verifEvents) add(s string) { e.mu.Lock(); e.log = append(e.log, s); e.mu.Unlock() }
func (e *verifEvents) index(s string) int {
	e.mu.Lock()
	defer e.mu.Unlock()
	for i, x := range e.log {
		if x == s {
			return i
		}
	}
	return -1
}
func (e *verifEvents) count(s string) int {
	e.mu.Lock()
	defer e.mu.Unlock()
	n := 0
	for _, x := range e.log {
		if x == s {
			n++
		}
	}
	return n
}

func TestVerifBounded_C18_Graphs(t *testing.T) {
	thorough := os.Getenv("VERIF_TIER") == "thorough"
	cases, fails := 0, 0
	report := func(id, msg string) {
		fails++
		if fails <= 5 {
			fmt.Printf("BOUNDED-VIOLATION case=%s %s\n", id, msg)
		}
	}
	type edge struct{ from, to int }
	var edges []edge
	for i := 0; i < 4; i++ {
		for j := 0; j < 4; j++ {
			edges = append(edges, edge{i, j}) // includes self edges
		}
	}
	runtimeEvery := 131
	if thorough {
		runtimeEvery = 17
	}
	for mask := 0; mask < 1<<16; mask++ {
		if !thorough && mask > 4096 && mask%16 != 0 {
			continue
		}
		cases++
		ev := &verifEvents{}
		failStart := -1
		if mask%3 == 0 {
			failStart = mask % 4
		}
		// some graphs contain a module whose init function returns no service (only its side effects matter)
		serviceless := -1
		if mask%5 == 1 && cases%runtimeEvery != 0 {
			serviceless = (mask / 5) % 4
		}
		mm := NewManager(log.NewNopLogger())
		for i, n := range verifNames {
			i, n := i, n
			mm.RegisterModule(n, func() (services.Service, error) {
				ev.add("init:" + n)
				if i == serviceless {
					return nil, nil
				}
				return services.NewBasicService(func(context.Context) error {
					ev.add("start:" + n)
					if i == failStart {
						return errors.New("boom")
					}
					return nil
				}, func(ctx context.Context) error { <-ctx.Done(); return nil }, func(error) error { ev.add("stop:" + n); return nil }), nil
			})
		}
		var adj [4][4]bool
		id := fmt.Sprintf("c18:%04x", mask)
		for bit, e := range edges {
			if mask&(1<<bit) == 0 {
				continue
			}
			wantReject := e.from == e.to || verifReach(adj, e.to, e.from)
			err := mm.AddDependency(verifNames[e.from], verifNames[e.to])
			if (err != nil) != wantReject {
				report(id+":cycle", fmt.Sprintf("AddDependency(%s,%s) err=%v, closes a cycle=%v (accepted edges %v)", verifNames[e.from], verifNames[e.to], err, wantReject, adj))
				if err == nil {
					goto next // the graph is now cyclic: listDeps would not terminate
				}
			}
			if err == nil {
				adj[e.from][e.to] = true
			}
		}
		for tmask := 1; tmask < 16; tmask += 1 + (mask % 3) {
			var targets []string
			need := [4]bool{}
			for i := 0; i < 4; i++ {
				if tmask&(1<<i) != 0 {
					targets = append(targets, verifNames[i])
					need[i] = true
					for j := 0; j < 4; j++ {
						if verifReach(adj, i, j) {
							need[j] = true
						}
					}
				}
			}
			ev.mu.Lock()
			ev.log = nil
			ev.mu.Unlock()
			svcs, err := mm.InitModuleServices(targets...)
			if err != nil {
				report(id+":init", err.Error())
				continue
			}
			for i, n := range verifNames {
				c := ev.count("init:" + n)
				if need[i] && c != 1 || !need[i] && c != 0 {
					report(fmt.Sprintf("%s:t=%x:init-count", id, tmask), fmt.Sprintf("module %s initialised %d times, needed=%v", n, c, need[i]))
				}
				for j := 0; j < 4; j++ {
					if need[i] && adj[i][j] && ev.index("init:"+verifNames[j]) > ev.index("init:"+n) {
						report(fmt.Sprintf("%s:t=%x:init-order", id, tmask), fmt.Sprintf("%s initialised before its dependency %s", n, verifNames[j]))
					}
				}
			}
			if cases%runtimeEvery != 0 || tmask != 15 {
				continue
			}
			// run time: start everything, then stop everything
			var list []services.Service
			for _, s := range svcs {
				list = append(list, s)
			}
			sm, err := services.NewManager(list...)
			if err != nil {
				continue
			}
			ctx, cancel := context.WithTimeout(context.Background(), 10*time.Second)
			_ = sm.StartAsync(ctx)
			if failStart < 0 {
				if err := sm.AwaitHealthy(ctx); err != nil {
					report(id+":start", err.Error())
				}
			} else {
				// modules that do not depend on the failing one keep running: give the rest time to settle
				sctx, scancel := context.WithTimeout(ctx, 300*time.Millisecond)
				_ = sm.AwaitStopped(sctx)
				scancel()
			}
			for i, n := range verifNames {
				for j := 0; j < 4; j++ {
					if verifReach(adj, i, j) {
						si, sj := ev.index("start:"+n), ev.index("start:"+verifNames[j])
						if si >= 0 && (sj < 0 || sj > si) {
							report(id+":start-order", fmt.Sprintf("%s started before its dependency %s", n, verifNames[j]))
						}
						if failStart == j && si >= 0 {
							report(id+":start-after-failed-dep", fmt.Sprintf("%s started although %s failed to start", n, verifNames[j]))
						}
					}
				}
			}
			sm.StopAsync()
			_ = sm.AwaitStopped(ctx)
			cancel()
			for i, n := range verifNames {
				for j := 0; j < 4; j++ {
					if verifReach(adj, i, j) && failStart < 0 {
						pi, pj := ev.index("stop:"+n), ev.index("stop:"+verifNames[j])
						if pi >= 0 && pj >= 0 && pj < pi {
							report(id+":stop-order", fmt.Sprintf("%s stopped before its dependant %s", verifNames[j], n))
						}
					}
				}
			}
		}
	next:
	}
	fmt.Printf("BOUNDED-CASES name=C18_Graphs n=%d distinct=%d bound=dependency edge sets over 4 modules (incl. self edges and cycle attempts; quick: all masks<=4096 + every 5th), target subsets, init count/order (every 5th graph has one module whose init returns no service); run-time start/stop order and failing dependency on a sample (every %dth graph)\n", cases, cases, runtimeEvery)
	if fails > 0 {
		t.Fatalf("%d mismatches", fails)
	}
}

// A stop requested while a dependant is still starting up: the dependency's service must stay up until the dependant's
// own service has terminated (chains of 2 and 3 modules; the dependant at the end of the chain is held in its start function).
func TestVerifBounded_C18_StopDuringStartup(t *testing.T) {
	cases, fails := 0, 0
	for chain := 2; chain <= 3; chain++ {
		cases++
		ev := &verifEvents{}
		releaseStart := make(chan struct{})
		inStart := make(chan struct{})
		mm := NewManager(log.NewNopLogger())
		names := verifNames[:chain] // names[i+1] depends on names[i]; the last one blocks in its start function
		for i, n := range names {
			i, n := i, n
			mm.RegisterModule(n, func() (services.Service, error) {
				return services.NewBasicService(func(context.Context) error {
					if i == chain-1 {
						close(inStart)
						<-releaseStart
					}
					ev.add("started:" + n)
					return nil
				}, func(ctx context.Context) error { <-ctx.Done(); return nil }, func(error) error { ev.add("stopped:" + n); return nil }), nil
			})
			if i > 0 {
				if err := mm.AddDependency(n, names[i-1]); err != nil {
					t.Fatal(err)
				}
			}
		}
		svcs, err := mm.InitModuleServices(names[chain-1])
		if err != nil {
			t.Fatal(err)
		}
		var list []services.Service
		for _, s := range svcs {
			list = append(list, s)
		}
		sm, _ := services.NewManager(list...)
		_ = sm.StartAsync(context.Background())
		<-inStart // every dependency is running, the last module's service is inside its start function
		sm.StopAsync()
		// give a wrongly ordered stop the chance to happen, then let the dependant finish starting
		time.Sleep(100 * time.Millisecond)
		early := ""
		for _, n := range names[:chain-1] {
			if ev.index("stopped:"+n) >= 0 {
				early += n + " "
			}
		}
		close(releaseStart)
		_ = sm.AwaitStopped(context.Background())
		last := names[chain-1]
		for _, n := range names[:chain-1] {
			if si, sl := ev.index("stopped:"+n), ev.index("stopped:"+last); early != "" || (sl >= 0 && si < sl) {
				fails++
				fmt.Printf("BOUNDED-VIOLATION case=c18-stop-during-startup:chain=%d module %s was stopped (early: %q) before its dependant %s, which was still starting up, had stopped; events %v\n", chain, n, early, last, ev.log)
				break
			}
		}
	}
	fmt.Printf("BOUNDED-CASES name=C18_StopDuringStartup n=%d distinct=%d bound=dependency chains of 2 and 3 modules, stop requested while the last module's service is inside its start function\n", cases, cases)
	if fails > 0 {
		t.Fatalf("%d violations", fails)
	}
}
