// verif-pkg: modules
//
// Bounded stand-in / replay harness for C18 (NOT proof): dependency chains in which some modules have no service of
// their own (no init function, or an init function returning no service). Nobody waits for such a module, so the modules
// on either side of it must still wait for each other: a module starts only after every module it depends on (at any
// distance) runs, and begins to stop only after every module that depends on it (at any distance) has stopped.
package modules

import (
	"context"
	"fmt"
	"testing"
	"time"

	"github.com/go-kit/log"

	"github.com/grafana/dskit/services"
)

func TestVerifBounded_C18_ServicelessChains(t *testing.T) {
	cases, fails := 0, 0
	report := func(id, msg string) {
		fails++
		if fails <= 5 {
			fmt.Printf("BOUNDED-VIOLATION case=%s %s\n", id, msg)
		}
	}
	// chain m0 <- m1 <- ... <- m(n-1) (m(i) depends on m(i-1)); kind[i]: 0 service, 1 no init function, 2 init returns no service
	for n := 3; n <= 5; n++ {
		total := 1
		for i := 0; i < n-2; i++ {
			total *= 3
		}
		for mask := 0; mask < total; mask++ {
			cases++
			kind := make([]int, n) // the two ends always have services
			mm := mask
			for i := 1; i < n-1; i++ {
				kind[i] = mm % 3
				mm /= 3
			}
			id := fmt.Sprintf("c18-serviceless-chain:n=%d:kinds=%v", n, kind)
			ev := &verifEvents{}
			mgr := NewManager(log.NewNopLogger())
			name := func(i int) string { return fmt.Sprintf("m%d", i) }
			for i := 0; i < n; i++ {
				i := i
				switch kind[i] {
				case 0:
					mgr.RegisterModule(name(i), func() (services.Service, error) {
						return services.NewBasicService(
							func(context.Context) error { ev.add("start:" + name(i)); time.Sleep(3 * time.Millisecond); ev.add("started:" + name(i)); return nil },
							func(ctx context.Context) error { <-ctx.Done(); return nil },
							func(error) error { ev.add("stop:" + name(i)); time.Sleep(3 * time.Millisecond); ev.add("stopped:" + name(i)); return nil }), nil
					})
				case 1:
					mgr.RegisterModule(name(i), nil)
				default:
					mgr.RegisterModule(name(i), func() (services.Service, error) { return nil, nil })
				}
				if i > 0 {
					if err := mgr.AddDependency(name(i), name(i-1)); err != nil {
						report(id+":setup", err.Error())
					}
				}
			}
			sm, err := mgr.InitModuleServices(name(n - 1))
			if err != nil {
				report(id+":init", err.Error())
				continue
			}
			var svcs []services.Service
			for _, s := range sm {
				svcs = append(svcs, s)
			}
			sman, err := services.NewManager(svcs...)
			if err != nil {
				report(id+":manager", err.Error())
				continue
			}
			ctx, cancel := context.WithTimeout(context.Background(), 30*time.Second)
			if err := services.StartManagerAndAwaitHealthy(ctx, sman); err != nil {
				report(id+":start", err.Error())
			}
			sman.StopAsync()
			if err := sman.AwaitStopped(ctx); err != nil {
				report(id+":stop", err.Error())
			}
			cancel()
			for i := 0; i < n; i++ {
				for j := 0; j < i; j++ { // m(i) depends on m(j), at distance i-j
					if kind[i] != 0 || kind[j] != 0 {
						continue
					}
					if a, b := ev.index("started:"+name(j)), ev.index("start:"+name(i)); a < 0 || b < 0 || b < a {
						report(id+":start-order", fmt.Sprintf("%s began to start before its dependency %s (distance %d) was running; events %v", name(i), name(j), i-j, ev.log))
					}
					if a, b := ev.index("stopped:"+name(i)), ev.index("stop:"+name(j)); a < 0 || b < 0 || b < a {
						report(id+":stop-order", fmt.Sprintf("%s began to stop before its dependant %s (distance %d) had stopped; events %v", name(j), name(i), i-j, ev.log))
					}
				}
			}
		}
	}
	fmt.Printf("BOUNDED-CASES name=C18_ServicelessChains n=%d distinct=%d bound=dependency chains of 3..5 modules, every assignment of {service, no init function, init returns no service} to the inner modules; real services, start then stop\n", cases, cases)
	if fails > 0 {
		t.Fatalf("%d violations", fails)
	}
}
