// verif-pkg: ring
//
// Bounded stand-in / replay harness for C15 (NOT proof).
package ring

import (
	"context"
	"fmt"
	"sort"
	"testing"
	"time"

	"github.com/go-kit/log"

	"github.com/grafana/dskit/kv/consul"
)

func TestVerifBounded_C15_Routing(t *testing.T) {
	alpha := []uint32{0, 1, 7, 1 << 31, 1<<32 - 1}
	keyset := map[uint32]bool{}
	for _, a := range alpha {
		keyset[a], keyset[a-1], keyset[a+1] = true, true, true
	}
	var keys []uint32
	for k := range keyset {
		keys = append(keys, k)
	}
	sort.Slice(keys, func(i, j int) bool { return keys[i] < keys[j] })
	states := []PartitionState{PartitionPending, PartitionActive, PartitionInactive}
	cases, distinct, fails := 0, 0, 0
	now := time.Now()
	nparts := 3
	owners := make([]int, len(alpha))
	var rec func(pos int)
	rec = func(pos int) {
		if pos < len(owners) {
			for o := -1; o < nparts; o++ {
				owners[pos] = o
				rec(pos + 1)
			}
			return
		}
		for sc := 0; sc < 27; sc++ {
			st := []PartitionState{states[sc%3], states[(sc/3)%3], states[(sc/9)%3]}
			desc := NewPartitionRingDesc()
			type tok struct {
				t uint32
				p int
			}
			var all []tok
			for p := 0; p < nparts; p++ {
				desc.AddPartition(int32(p), st[p], now)
				pd := desc.Partitions[int32(p)]
				pd.Tokens = nil
				for ti, o := range owners {
					if o == p {
						pd.Tokens = append(pd.Tokens, alpha[ti])
						all = append(all, tok{alpha[ti], p})
					}
				}
				desc.Partitions[int32(p)] = pd
			}
			pr, err := NewPartitionRing(*desc)
			if err != nil {
				continue
			}
			distinct++
			sort.Slice(all, func(i, j int) bool { return all[i].t < all[j].t })
			for _, k := range keys {
				cases++
				// oracle: first token strictly after k clockwise whose partition is active
				want, found := int32(-1), false
				if len(all) > 0 {
					start := sort.Search(len(all), func(i int) bool { return all[i].t > k }) % len(all)
					for d := 0; d < len(all); d++ {
						c := all[(start+d)%len(all)]
						if st[c.p] == PartitionActive {
							want, found = int32(c.p), true
							break
						}
					}
				}
				got, gerr := pr.ActivePartitionForKey(k)
				if found != (gerr == nil) || (found && got != want) {
					fails++
					if fails <= 5 {
						fmt.Printf("BOUNDED-VIOLATION case=c15-route:%v:%v:key=%d got=%d err=%v want=%d found=%v\n", owners, st, k, got, gerr, want, found)
					}
				}
				if !found && gerr != ErrNoActivePartitionFound {
					fails++
					if fails <= 5 {
						fmt.Printf("BOUNDED-VIOLATION case=c15-route-err:%v:%v:key=%d err=%v\n", owners, st, k, gerr)
					}
				}
			}
		}
	}
	rec(0)
	fmt.Printf("BOUNDED-CASES name=C15_Routing n=%d distinct=%d bound=3 partitions x states{pending,active,inactive}^3 x every assignment of tokens %v, keys=tokens+-1; oracle: first active partition clockwise from the first token > key\n", cases, distinct, alpha)
	if fails > 0 {
		t.Fatalf("%d mismatches", fails)
	}
}

func TestVerifBounded_C15_StateEdges(t *testing.T) {
	// every value of the state enumeration, including the two that are not states of a live partition (unknown, deleted):
	// no edge to or from them is legal
	states := []PartitionState{PartitionPending, PartitionActive, PartitionInactive, PartitionUnknown, PartitionDeleted}
	legal := map[[2]PartitionState]bool{{PartitionPending, PartitionActive}: true, {PartitionPending, PartitionInactive}: true, {PartitionActive, PartitionInactive}: true, {PartitionInactive, PartitionActive}: true}
	cases, fails := 0, 0
	now := time.Now()
	for _, from := range states {
		for _, to := range states {
			for _, locked := range []bool{false, true} {
				cases++
				desc := NewPartitionRingDesc()
				desc.AddPartition(1, from, now.Add(-time.Hour))
				desc.AddPartition(2, PartitionActive, now.Add(-time.Hour))
				desc.UpdatePartitionStateChangeLock(1, locked, now.Add(-time.Hour))
				before := desc.Partitions[1]
				other := desc.Partitions[2]
				changed, err := changePartitionState(desc, 1, to)
				after := desc.Partitions[1]
				wantChange := from != to && legal[[2]PartitionState{from, to}] && !locked
				if changed != wantChange || (changed && (after.State != to || err != nil)) || (!changed && after.State != before.State) || desc.Partitions[2].State != other.State {
					fails++
					if fails <= 5 {
						fmt.Printf("BOUNDED-VIOLATION case=c15-edge:%v->%v:locked=%v changed=%v err=%v after=%v\n", from, to, locked, changed, err, after.State)
					}
				}
				if from != to && legal[[2]PartitionState{from, to}] && locked && err != ErrPartitionStateChangeLocked {
					fails++
					fmt.Printf("BOUNDED-VIOLATION case=c15-edge-lockerr:%v->%v err=%v\n", from, to, err)
				}
			}
		}
	}
	fmt.Printf("BOUNDED-CASES name=C15_StateEdges n=%d distinct=%d bound=all (from,to,locked) over the five values of the state enumeration {pending,active,inactive,unknown,deleted}\n", cases, cases)
	if fails > 0 {
		t.Fatalf("%d mismatches", fails)
	}
}

func TestVerifBounded_C15_Reconcile(t *testing.T) {
	ctx := context.Background()
	cases, fails := 0, 0
	now := time.Now()
	wait := 10 * time.Second
	del := time.Hour
	for ownState := 0; ownState < 4; ownState++ { // 0 absent, 1 pending, 2 active, 3 inactive
		for _, locked := range []bool{false, true} {
			for nOld := 0; nOld <= 2; nOld++ { // owners of the own partition registered long enough
				for nNew := 0; nNew <= 1; nNew++ { // owners registered too recently
					for otherAge := 0; otherAge < 3; otherAge++ { // other partition: 0 inactive old, 1 inactive recent, 2 active old
						for otherOwners := 0; otherOwners <= 1; otherOwners++ {
							cases++
							store, closer := consul.NewInMemoryClient(GetPartitionRingCodec(), log.NewNopLogger(), nil)
							cfg := PartitionInstanceLifecyclerConfig{PartitionID: 1, InstanceID: "self", WaitOwnersCountOnPending: 2, WaitOwnersDurationOnPending: wait, DeleteInactivePartitionAfterDuration: del, PollingInterval: time.Hour}
							l := NewPartitionInstanceLifecycler(cfg, "test", "ring", store, log.NewNopLogger(), nil)
							desc := NewPartitionRingDesc()
							if ownState > 0 {
								desc.AddPartition(1, []PartitionState{0, PartitionPending, PartitionActive, PartitionInactive}[ownState], now.Add(-2*del))
								desc.UpdatePartitionStateChangeLock(1, locked, now.Add(-2*del))
							}
							for i := 0; i < nOld; i++ {
								desc.AddOrUpdateOwner(fmt.Sprintf("old-%d", i), OwnerActive, 1, now.Add(-2*wait))
							}
							for i := 0; i < nNew; i++ {
								desc.AddOrUpdateOwner(fmt.Sprintf("new-%d", i), OwnerActive, 1, now)
							}
							switch otherAge {
							case 0:
								desc.AddPartition(2, PartitionInactive, now.Add(-2*del))
							case 1:
								desc.AddPartition(2, PartitionInactive, now.Add(-del/2))
							case 2:
								desc.AddPartition(2, PartitionActive, now.Add(-2*del))
							}
							for i := 0; i < otherOwners; i++ {
								desc.AddOrUpdateOwner("other-owner", OwnerActive, 2, now.Add(-2*del))
							}
							_ = store.CAS(ctx, "ring", func(in interface{}) (interface{}, bool, error) { return desc, true, nil })
							l.reconcileOwnedPartition(ctx, now)
							l.reconcileOtherPartitions(ctx, now)
							v, _ := store.Get(ctx, "ring")
							after := GetOrCreatePartitionRingDesc(v)
							_ = closer.Close()
							id := fmt.Sprintf("c15-reconcile:own=%d:locked=%v:old=%d:new=%d:other=%d:otherOwners=%d", ownState, locked, nOld, nNew, otherAge, otherOwners)
							// promotion only from pending, unlocked, with >= 2 owners registered for >= wait
							wantOwn := PartitionState(0)
							if ownState > 0 {
								wantOwn = []PartitionState{0, PartitionPending, PartitionActive, PartitionInactive}[ownState]
								if ownState == 1 && !locked && nOld >= 2 {
									wantOwn = PartitionActive
								}
							}
							gotOwn, ownExists := after.Partitions[1]
							if ownExists != (ownState > 0) || (ownExists && gotOwn.State != wantOwn) {
								fails++
								if fails <= 5 {
									fmt.Printf("BOUNDED-VIOLATION case=%s own partition state=%v exists=%v want=%v\n", id, gotOwn.State, ownExists, wantOwn)
								}
							}
							// deletion only when inactive longer than the delay and ownerless; never the own partition
							wantOtherDeleted := otherAge == 0 && otherOwners == 0
							_, otherExists := after.Partitions[2]
							if otherExists == wantOtherDeleted {
								fails++
								if fails <= 5 {
									fmt.Printf("BOUNDED-VIOLATION case=%s other partition exists=%v wantDeleted=%v\n", id, otherExists, wantOtherDeleted)
								}
							}
						}
					}
				}
			}
		}
	}
	fmt.Printf("BOUNDED-CASES name=C15_Reconcile n=%d distinct=%d bound=own partition {absent,pending,active,inactive} x locked x 0..2 long-registered owners x 0..1 recent owners x other partition {inactive old, inactive recent, active} x 0..1 owners; real reconcile callbacks through the in-memory consul store\n", cases, cases)
	if fails > 0 {
		t.Fatalf("%d mismatches", fails)
	}
}

// Deletion boundary with sub-second clocks: the descriptor records the second in which a partition became inactive;
// whatever the instant inside that second, the partition must not be deleted before the delay has fully elapsed.
func TestVerifBounded_C15_DeletionBoundary(t *testing.T) {
	ctx := context.Background()
	cases, fails := 0, 0
	del := 10 * time.Second
	base := time.Unix(1_700_000_000, 0)
	for k := -8; k <= 12; k++ {
		cases++
		now := base.Add(del).Add(time.Duration(k) * 250 * time.Millisecond)
		store, closer := consul.NewInMemoryClient(GetPartitionRingCodec(), log.NewNopLogger(), nil)
		cfg := PartitionInstanceLifecyclerConfig{PartitionID: 1, InstanceID: "self", WaitOwnersCountOnPending: 1, WaitOwnersDurationOnPending: time.Second, DeleteInactivePartitionAfterDuration: del, PollingInterval: time.Hour}
		l := NewPartitionInstanceLifecycler(cfg, "test", "ring", store, log.NewNopLogger(), nil)
		desc := NewPartitionRingDesc()
		desc.AddPartition(1, PartitionActive, base.Add(-time.Hour))
		desc.AddPartition(2, PartitionInactive, base.Add(900*time.Millisecond)) // recorded as second `base`
		_ = store.CAS(ctx, "ring", func(in interface{}) (interface{}, bool, error) { return desc, true, nil })
		l.reconcileOtherPartitions(ctx, now)
		v, _ := store.Get(ctx, "ring")
		_, exists := GetOrCreatePartitionRingDesc(v).Partitions[2]
		_ = closer.Close()
		// the partition may have become inactive at any instant of the recorded second: deleting is legitimate only
		// once the delay has elapsed for all of them
		elapsedForAll := !now.Add(-del).Before(base.Add(time.Second))
		if !exists && !elapsedForAll {
			fails++
			if fails <= 5 {
				fmt.Printf("BOUNDED-VIOLATION case=c15-delete-early:offset=%dms partition inactive since second %d (+0.9 s) deleted at %v: inactive for %v only, the delay is %v\n", k*250, base.Unix(), now.Sub(base), now.Sub(base.Add(900*time.Millisecond)), del)
			}
		}
	}
	fmt.Printf("BOUNDED-CASES name=C15_DeletionBoundary n=%d distinct=%d bound=ownerless inactive partition, reconcile ticks at delay-2 s .. delay+3 s in steps of 250 ms\n", cases, cases)
	if fails > 0 {
		t.Fatalf("%d mismatches", fails)
	}
}
