// verif-pkg: services
//
// Bounded stand-in / replay harness for C17 (NOT proof): services and managers under scripted outcomes and racing
// StartAsync/StopAsync callers.
package services

import (
	"context"
	"errors"
	"fmt"
	"os"
	"strings"
	"sync"
	"testing"
	"time"
)

type verifRec struct {
	mu  sync.Mutex
	ev  []string
	in  int // listener callbacks currently running
	bad string
}

func (r *verifRec) add(s string) { r.mu.Lock(); r.ev = append(r.ev, s); r.mu.Unlock() }
func (r *verifRec) enter() {
	r.mu.Lock()
	r.in++
	if r.in > 1 {
		r.bad = "two listener callbacks at the same time"
	}
	r.mu.Unlock()
}
func (r *verifRec) leave() { r.mu.Lock(); r.in--; r.mu.Unlock() }

type verifListener struct{ r *verifRec }

func (l verifListener) Starting()            { l.r.enter(); l.r.add("L:Starting"); l.r.leave() }
func (l verifListener) Running()             { l.r.enter(); l.r.add("L:Running"); l.r.leave() }
func (l verifListener) Stopping(from State)  { l.r.enter(); l.r.add("L:Stopping<-" + from.String()); l.r.leave() }
func (l verifListener) Terminated(from State) {
	l.r.enter()
	l.r.add("L:Terminated<-" + from.String())
	l.r.leave()
}
func (l verifListener) Failed(from State, _ error) {
	l.r.enter()
	l.r.add("L:Failed<-" + from.String())
	l.r.leave()
}

func TestVerifBounded_C17_Service(t *testing.T) {
	rounds := 6
	if os.Getenv("VERIF_TIER") == "thorough" {
		rounds = 60
	}
	cases, fails := 0, 0
	report := func(id, msg string) {
		fails++
		if fails <= 5 {
			fmt.Printf("BOUNDED-VIOLATION case=%s %s\n", id, msg)
		}
	}
	legal := map[string]bool{"New>Starting": true, "Starting>Running": true, "Starting>Stopping": true, "Running>Stopping": true, "Starting>Failed": true, "Stopping>Terminated": true, "Stopping>Failed": true, "New>Terminated": true}
	for round := 0; round < rounds; round++ {
		for startErr := 0; startErr < 2; startErr++ {
			for runErr := 0; runErr < 2; runErr++ {
				for stopErr := 0; stopErr < 2; stopErr++ {
					for stopWhen := 0; stopWhen < 4; stopWhen++ { // 0 before start, 1 racing with start, 2 while running, 3 never (run returns by itself)
						cases++
						id := fmt.Sprintf("c17:startErr=%d:runErr=%d:stopErr=%d:stopWhen=%d", startErr, runErr, stopErr, stopWhen)
						rec := &verifRec{}
						eStart, eRun, eStop := errors.New("start"), errors.New("run"), errors.New("stop")
						var ctxAtStop error
						var svc *BasicService
						svc = NewBasicService(func(ctx context.Context) error {
							rec.add("F:start")
							if startErr == 1 {
								return eStart
							}
							return nil
						}, func(ctx context.Context) error {
							rec.add("F:run")
							if stopWhen != 3 {
								<-ctx.Done()
							}
							if runErr == 1 {
								return eRun
							}
							return nil
						}, func(error) error {
							rec.add("F:stop")
							ctxAtStop = svc.ServiceContext().Err()
							if stopErr == 1 {
								return eStop
							}
							return nil
						})
						svc.AddListener(verifListener{rec})
						func() {
							defer func() {
								if p := recover(); p != nil {
									report(id+":panic", fmt.Sprint(p))
								}
							}()
							var wg sync.WaitGroup
							if stopWhen == 0 {
								svc.StopAsync()
							}
							for k := 0; k < 3; k++ {
								wg.Add(1)
								go func() { defer wg.Done(); _ = svc.StartAsync(context.Background()) }()
								if stopWhen == 1 {
									wg.Add(1)
									go func() { defer wg.Done(); svc.StopAsync() }()
								}
							}
							wg.Wait()
							if stopWhen == 2 {
								_ = svc.AwaitRunning(context.Background())
								for k := 0; k < 3; k++ {
									wg.Add(1)
									go func() { defer wg.Done(); svc.StopAsync() }()
								}
								wg.Wait()
							}
						}()
						ctx, cancel := context.WithTimeout(context.Background(), 20*time.Second)
						terr := svc.AwaitTerminated(ctx)
						cancel()
						final := svc.State()
						if final != Terminated && final != Failed {
							report(id+":final", fmt.Sprintf("service ends in %v", final))
							continue
						}
						if (terr == nil) != (final == Terminated) {
							report(id+":await-terminated", fmt.Sprintf("AwaitTerminated=%v but final state %v", terr, final))
						}
						rerr := svc.AwaitRunning(context.Background())
						time.Sleep(2 * time.Millisecond)
						// listener callbacks are delivered by the listener's own goroutine: wait (generously: the machine may be
						// loaded) until the callback for the final state has arrived; only a callback that never comes is a violation
						patience := 4000
						if fails > 2 {
							patience = 10 // violations are already being reported: do not wait seconds for each further case
						}
						for w := 0; w < patience; w++ {
							seen := false
							rec.mu.Lock()
							for _, e := range rec.ev {
								if strings.HasPrefix(e, "L:"+final.String()) {
									seen = true
								}
							}
							rec.mu.Unlock()
							if seen {
								break
							}
							time.Sleep(2 * time.Millisecond)
						}
						rec.mu.Lock()
						ev := append([]string{}, rec.ev...)
						bad := rec.bad
						rec.mu.Unlock()
						if bad != "" {
							report(id+":listener-concurrent", bad)
						}
						// functions: at most once each, in order, stop iff start succeeded
						var fs, ls []string
						for _, e := range ev {
							if strings.HasPrefix(e, "F:") {
								fs = append(fs, e[2:])
							} else {
								ls = append(ls, e[2:])
							}
						}
						joined := strings.Join(fs, ",")
						okSeqs := map[string]bool{"": true, "start": startErr == 1, "start,stop": startErr == 0, "start,run,stop": startErr == 0}
						if !okSeqs[joined] {
							report(id+":functions", fmt.Sprintf("functions ran as [%s] (start error=%v)", joined, startErr == 1))
						}
						if strings.Contains(joined, "stop") && ctxAtStop == nil {
							report(id+":context", "stopping function ran before the service context was cancelled")
						}
						// listener: every transition once, in order, along legal edges
						cur := "New"
						for _, l := range ls {
							to := l
							from := cur
							if i := strings.Index(l, "<-"); i > 0 {
								to, from = l[:i], l[i+2:]
								if from != cur {
									report(id+":listener-order", fmt.Sprintf("callback %s but the previous state was %s; all: %v", l, cur, ls))
								}
							}
							if !legal[from+">"+to] {
								report(id+":illegal-edge", fmt.Sprintf("%s -> %s; all: %v", from, to, ls))
							}
							cur = to
						}
						if cur != final.String() {
							report(id+":listener-missed", fmt.Sprintf("listener saw %v (ends in %s) but the service is %v", ls, cur, final))
						}
						// failure cause is the first error
						var want error
						switch {
						case !strings.Contains(joined, "start"):
							want = nil
						case startErr == 1:
							want = eStart
						case strings.Contains(joined, "run") && runErr == 1:
							want = eRun
						case stopErr == 1:
							want = eStop
						}
						if svc.FailureCase() != want || (want != nil) != (final == Failed) {
							report(id+":failure-cause", fmt.Sprintf("failure case %v, expected %v (functions %s), final %v", svc.FailureCase(), want, joined, final))
						}
						// AwaitRunning returns nil only if the service is/was running... after termination it reports the state
						if rerr == nil {
							report(id+":await-running", "AwaitRunning returned nil after the service reached a terminal state")
						}
					}
				}
			}
		}
	}
	// a slow listener must not hold the service back: notifications are queued (the queue holds the longest path)
	{
		cases++
		delay := time.Second // long enough that a loaded machine does not take this long on its own
		svc := NewBasicService(nil, func(context.Context) error { return nil }, nil)
		var mu sync.Mutex
		got := 0
		slow := NewListener(func() { time.Sleep(delay); mu.Lock(); got++; mu.Unlock() }, func() { time.Sleep(delay); mu.Lock(); got++; mu.Unlock() },
			func(State) { time.Sleep(delay); mu.Lock(); got++; mu.Unlock() }, func(State) { time.Sleep(delay); mu.Lock(); got++; mu.Unlock() }, func(State, error) {})
		svc.AddListener(slow)
		t0 := time.Now()
		_ = svc.StartAsync(context.Background())
		ctx, cancel := context.WithTimeout(context.Background(), 20*time.Second)
		_ = svc.AwaitTerminated(ctx)
		cancel()
		if el := time.Since(t0); el > delay {
			report("c17:slow-listener", fmt.Sprintf("the service needed %v to terminate while a listener takes %v per callback: a transition waited for the listener", el, delay))
		}
		for w := 0; w < 300; w++ { // the four callbacks take 4 x delay; poll instead of guessing
			mu.Lock()
			g := got
			mu.Unlock()
			if g == 4 {
				break
			}
			time.Sleep(100 * time.Millisecond)
		}
		mu.Lock()
		if got != 4 {
			report("c17:slow-listener-count", fmt.Sprintf("slow listener received %d of 4 transitions", got))
		}
		mu.Unlock()
	}
	fmt.Printf("BOUNDED-CASES name=C17_Service n=%d distinct=%d bound=%d rounds x start/run/stop error flags x stop timing {before start, racing 3 StartAsync vs 3 StopAsync, while running (3 racing StopAsync), never}; one listener\n", cases, 32, rounds)
	if fails > 0 {
		t.Fatalf("%d mismatches", fails)
	}
}

type verifMgrListener struct {
	mu                       sync.Mutex
	healthy, stopped         int
	failed                   map[Service]int
}

func (l *verifMgrListener) Healthy() { l.mu.Lock(); l.healthy++; l.mu.Unlock() }
func (l *verifMgrListener) Stopped() { l.mu.Lock(); l.stopped++; l.mu.Unlock() }
func (l *verifMgrListener) Failure(s Service) {
	l.mu.Lock()
	l.failed[s]++
	l.mu.Unlock()
}

func TestVerifBounded_C17_Manager(t *testing.T) {
	cases, fails := 0, 0
	report := func(id, msg string) {
		fails++
		if fails <= 5 {
			fmt.Printf("BOUNDED-VIOLATION case=%s %s\n", id, msg)
		}
	}
	for n := 1; n <= 3; n++ {
		for mask := 0; mask < 1<<(2*n); mask++ { // per service: bit0 start fails, bit1 run fails
			cases++
			id := fmt.Sprintf("c17-mgr:n=%d:mask=%b", n, mask)
			var svcs []Service
			anyStartFail, anyRunFail := false, false
			for i := 0; i < n; i++ {
				sf, rf := mask&(1<<(2*i)) != 0, mask&(1<<(2*i+1)) != 0
				if sf {
					anyStartFail = true
				} else if rf {
					anyRunFail = true
				}
				svcs = append(svcs, NewBasicService(func(context.Context) error {
					if sf {
						return errors.New("start")
					}
					return nil
				}, func(ctx context.Context) error {
					if rf {
						time.Sleep(5 * time.Millisecond)
						return errors.New("run")
					}
					<-ctx.Done()
					return nil
				}, nil))
			}
			m, err := NewManager(svcs...)
			if err != nil {
				t.Fatal(err)
			}
			l := &verifMgrListener{failed: map[Service]int{}}
			m.AddListener(l)
			func() {
				defer func() {
					if p := recover(); p != nil {
						report(id+":panic", fmt.Sprint(p))
					}
				}()
				_ = m.StartAsync(context.Background())
				ctx, cancel := context.WithTimeout(context.Background(), 20*time.Second)
				herr := m.AwaitHealthy(ctx)
				cancel()
				if !anyStartFail && herr != nil && !anyRunFail {
					report(id+":healthy", fmt.Sprintf("all services start but AwaitHealthy=%v", herr))
				}
				if anyStartFail && herr == nil {
					report(id+":healthy-with-failed", "a service failed to start but the manager became healthy")
				}
				if herr == nil && !anyRunFail && !m.IsHealthy() {
					report(id+":ishealthy", "AwaitHealthy returned nil but IsHealthy is false while every service runs")
				}
				time.Sleep(15 * time.Millisecond)
				// the failing run function returns 5 ms after it starts: wait (generously, the machine may be loaded) for the
				// manager to notice; only a manager that stays healthy is a violation
				for w := 0; anyRunFail && m.IsHealthy() && w < 1000; w++ {
					time.Sleep(5 * time.Millisecond)
				}
				if anyRunFail && m.IsHealthy() {
					report(id+":healthy-after-failure", "a service failed while running but the manager still reports healthy")
				}
				m.StopAsync()
				sctx, scancel := context.WithTimeout(context.Background(), 2*time.Second)
				if err := m.AwaitStopped(sctx); err != nil {
					report(id+":stopped", err.Error())
				}
				scancel()
				if !m.IsStopped() {
					report(id+":isstopped", "AwaitStopped returned but IsStopped is false")
				}
				for _, s := range svcs {
					if st := s.State(); st != Terminated && st != Failed {
						report(id+":stopped-early", fmt.Sprintf("manager stopped while a service is %v", st))
					}
				}
			}()
			time.Sleep(5 * time.Millisecond)
			l.mu.Lock()
			for i, s := range svcs {
				sf, rf := mask&(1<<(2*i)) != 0, mask&(1<<(2*i+1)) != 0
				want := 0
				if sf || rf {
					want = 1
				}
				if l.failed[s] != want {
					report(id+":failure-listener", fmt.Sprintf("service %d failed=%v reported %d times", i, sf || rf, l.failed[s]))
				}
			}
			if l.stopped != 1 || l.healthy > 1 {
				report(id+":listener-counts", fmt.Sprintf("stopped callbacks %d, healthy callbacks %d", l.stopped, l.healthy))
			}
			l.mu.Unlock()
		}
	}
	fmt.Printf("BOUNDED-CASES name=C17_Manager n=%d distinct=%d bound=managers of 1..3 services, every combination of start failure / run failure per service; health, stop and failure listener\n", cases, cases)
	if fails > 0 {
		t.Fatalf("%d mismatches", fails)
	}
}

// Healthy waiters when healthy becomes unreachable without any service being terminal yet: one service is held in its
// stopping function (it was stopped while starting, or it stopped from Running while another one is still starting).
func TestVerifBounded_C17_ManagerHealthyUnreachable(t *testing.T) {
	cases, fails := 0, 0
	report := func(id, msg string) {
		fails++
		if fails <= 5 {
			fmt.Printf("BOUNDED-VIOLATION case=%s %s\n", id, msg)
		}
	}
	for n := 1; n <= 3; n++ {
		for _, when := range []string{"stopped-while-starting", "stopped-from-running"} {
			if when == "stopped-from-running" && n == 1 {
				continue // a single Running service makes the manager healthy first
			}
			cases++
			id := fmt.Sprintf("c17-mgr-unreachable:n=%d:%s", n, when)
			releaseStart := make(chan struct{})
			releaseStop := make(chan struct{})
			var svcs []Service
			// service 0 is the one that ends up held in Stopping; the others stay in Starting until released
			svcs = append(svcs, NewBasicService(func(ctx context.Context) error {
				if when == "stopped-while-starting" {
					<-ctx.Done() // StopAsync during a (successful) start
				}
				return nil
			}, func(ctx context.Context) error { <-ctx.Done(); return nil }, func(error) error { <-releaseStop; return nil }))
			for i := 1; i < n; i++ {
				svcs = append(svcs, NewBasicService(func(context.Context) error { <-releaseStart; return nil }, func(ctx context.Context) error { <-ctx.Done(); return nil }, nil))
			}
			m, err := NewManager(svcs...)
			if err != nil {
				t.Fatal(err)
			}
			_ = m.StartAsync(context.Background())
			if when == "stopped-from-running" {
				_ = svcs[0].AwaitRunning(context.Background())
			}
			svcs[0].StopAsync()
			// wait until the manager has observed the Stopping transition
			deadline := time.Now().Add(2 * time.Second)
			for time.Now().Before(deadline) && len(m.ServicesByState()[Stopping]) == 0 {
				time.Sleep(time.Millisecond)
			}
			if len(m.ServicesByState()[Stopping]) != 1 {
				report(id+":setup", "service 0 was not observed in Stopping")
			} else {
				ctx, cancel := context.WithTimeout(context.Background(), 5*time.Second) // "at once", with room for a loaded machine
				err := m.AwaitHealthy(ctx)
				timedOut := ctx.Err() != nil
				cancel()
				if err == nil || timedOut {
					report(id, fmt.Sprintf("a service is Stopping (healthy can no longer be reached) but AwaitHealthy returned %v (timed out: %v) instead of failing at once", err, timedOut))
				}
			}
			close(releaseStop)
			close(releaseStart)
			m.StopAsync()
			_ = m.AwaitStopped(context.Background())
		}
	}
	fmt.Printf("BOUNDED-CASES name=C17_ManagerHealthyUnreachable n=%d distinct=%d bound=managers of 1..3 services, one service held in its stopping function (stopped while starting / from Running) while no service is terminal\n", cases, cases)
	if fails > 0 {
		t.Fatalf("%d mismatches", fails)
	}
}

// A listener registered while the service is Stopping (one more transition is still to come) sees that transition.
func TestVerifBounded_C17_ListenerAddedWhileStopping(t *testing.T) {
	cases, fails := 0, 0
	for _, stopErr := range []bool{false, true} {
		cases++
		release := make(chan struct{})
		s := NewBasicService(nil, func(ctx context.Context) error { <-ctx.Done(); return nil }, func(error) error {
			<-release
			if stopErr {
				return errors.New("stop failed")
			}
			return nil
		})
		_ = s.StartAsync(context.Background())
		_ = s.AwaitRunning(context.Background())
		s.StopAsync()
		deadline := time.Now().Add(2 * time.Second)
		for s.State() != Stopping && time.Now().Before(deadline) {
			time.Sleep(time.Millisecond)
		}
		r := &verifRec{}
		s.AddListener(verifListener{r})
		close(release)
		ctx, cancel := context.WithTimeout(context.Background(), 2*time.Second)
		_ = s.AwaitTerminated(ctx)
		cancel()
		want := "L:Terminated<-Stopping"
		if stopErr {
			want = "L:Failed<-Stopping"
		}
		ok := false
		for w := 0; w < 500 && !ok; w++ {
			r.mu.Lock()
			for _, e := range r.ev {
				if e == want {
					ok = true
				}
			}
			r.mu.Unlock()
			if !ok {
				time.Sleep(time.Millisecond)
			}
		}
		if !ok {
			fails++
			r.mu.Lock()
			fmt.Printf("BOUNDED-VIOLATION case=c17-listener-added-while-stopping:stopErr=%v the listener was registered in state Stopping and never saw %q; it saw %v\n", stopErr, want, r.ev)
			r.mu.Unlock()
		}
	}
	fmt.Printf("BOUNDED-CASES name=C17_ListenerWhileStopping n=%d distinct=%d bound=listener added while the stopping function runs (stop succeeds / fails)\n", cases, cases)
	if fails > 0 {
		t.Fatalf("%d violations", fails)
	}
}

// Idle and timer services (named in the property's quantifier): a timer iteration that returns an error makes the
// service fail with exactly that error, whether the error arrives while running, after StopAsync or after the parent
// context was cancelled (the iteration is held until the stop request is in); an iteration that returns nil after a stop
// request ends Terminated; an idle service terminates cleanly and reports a failing stop function.
func TestVerifBounded_C17_TimerAndIdle(t *testing.T) {
	cases, fails := 0, 0
	report := func(id, msg string) {
		fails++
		if fails <= 5 {
			fmt.Printf("BOUNDED-VIOLATION case=%s %s\n", id, msg)
		}
	}
	for _, iterErr := range []bool{false, true} {
		for stopHow := 0; stopHow < 3; stopHow++ { // 0: no stop request (error while running), 1: StopAsync during the iteration, 2: parent cancel during it
			if !iterErr && stopHow == 0 {
				continue
			}
			cases++
			id := fmt.Sprintf("c17-timer:iterErr=%v:stop=%d", iterErr, stopHow)
			boom := errors.New("iteration failed")
			entered := make(chan struct{}, 1)
			var stopArg error
			stopCalled := make(chan struct{})
			iter := func(ctx context.Context) error {
				select {
				case entered <- struct{}{}:
				default:
				}
				if stopHow != 0 {
					<-ctx.Done() // the result arrives after the stop request
				}
				if iterErr {
					return boom
				}
				return nil
			}
			svc := NewTimerService(time.Millisecond, nil, iter, func(e error) error { stopArg = e; close(stopCalled); return nil })
			parent, cancelParent := context.WithCancel(context.Background())
			_ = svc.StartAsync(parent)
			if err := svc.AwaitRunning(context.Background()); err != nil && stopHow != 0 {
				report(id+":setup", "AwaitRunning: "+err.Error())
			}
			select {
			case <-entered:
			case <-time.After(10 * time.Second):
				report(id+":setup", "no iteration ran")
			}
			switch stopHow {
			case 1:
				svc.StopAsync()
			case 2:
				cancelParent()
			}
			ctx, cancel := context.WithTimeout(context.Background(), 20*time.Second)
			terr := svc.AwaitTerminated(ctx)
			cancel()
			cancelParent()
			<-stopCalled
			if iterErr {
				if svc.State() != Failed || !errors.Is(svc.FailureCase(), boom) || terr == nil {
					report(id+":failure-cause", fmt.Sprintf("an iteration returned an error: state %v, failure case %v, AwaitTerminated=%v; expected Failed with the iteration's error", svc.State(), svc.FailureCase(), terr))
				}
				if !errors.Is(stopArg, boom) {
					report(id+":stopping-arg", fmt.Sprintf("stopping function received %v, expected the iteration's error", stopArg))
				}
			} else if svc.State() != Terminated || svc.FailureCase() != nil || terr != nil {
				report(id+":clean", fmt.Sprintf("no function failed: state %v, failure case %v, AwaitTerminated=%v", svc.State(), svc.FailureCase(), terr))
			}
		}
	}
	for _, stopErr := range []bool{false, true} {
		cases++
		id := fmt.Sprintf("c17-idle:stopErr=%v", stopErr)
		boom := errors.New("stop failed")
		svc := NewIdleService(nil, func(error) error {
			if stopErr {
				return boom
			}
			return nil
		})
		_ = svc.StartAsync(context.Background())
		_ = svc.AwaitRunning(context.Background())
		time.Sleep(2 * time.Millisecond)
		if svc.State() != Running {
			report(id+":running", fmt.Sprintf("an idle service left Running by itself: %v", svc.State()))
		}
		svc.StopAsync()
		ctx, cancel := context.WithTimeout(context.Background(), 20*time.Second)
		terr := svc.AwaitTerminated(ctx)
		cancel()
		if stopErr && (svc.State() != Failed || !errors.Is(svc.FailureCase(), boom)) {
			report(id+":failure-cause", fmt.Sprintf("state %v failure %v", svc.State(), svc.FailureCase()))
		}
		if !stopErr && (svc.State() != Terminated || terr != nil) {
			report(id+":clean", fmt.Sprintf("state %v AwaitTerminated=%v", svc.State(), terr))
		}
	}
	fmt.Printf("BOUNDED-CASES name=C17_TimerAndIdle n=%d distinct=%d bound=timer service: iteration result nil/error x (while running, after StopAsync, after parent cancel); idle service: stop nil/error\n", cases, cases)
	if fails > 0 {
		t.Fatalf("%d violations", fails)
	}
}
