// verif-pkg: ring
//
// Bounded stand-in / replay harness for C01 (NOT proof): Ring.Get against the walk transcribed from
// the property statement, on small rings with boundary tokens.
package ring

import (
	"fmt"
	"math/rand"
	"os"
	"sort"
	"testing"
	"time"
)

type verifInst struct {
	id, zone string
	tokens   []uint32
	state    InstanceState
	stale    bool
}

func verifRingOf(insts []verifInst, rf int, zoneAware bool, now time.Time) (*Ring, *Desc) {
	d := NewDesc()
	for _, in := range insts {
		ts := now
		if in.stale {
			ts = now.Add(-time.Hour)
		}
		toks := append([]uint32{}, in.tokens...)
		sort.Slice(toks, func(a, b int) bool { return toks[a] < toks[b] })
		d.AddIngester(in.id, "addr-"+in.id, in.zone, toks, in.state, now.Add(-2*time.Hour), false, time.Time{}, nil)
		e := d.Ingesters[in.id]
		e.Timestamp = ts.Unix()
		d.Ingesters[in.id] = e
	}
	r := &Ring{
		cfg:                  Config{HeartbeatTimeout: time.Minute, ZoneAwarenessEnabled: zoneAware, SubringCacheDisabled: true, ReplicationFactor: rf},
		strategy:             NewDefaultReplicationStrategy(),
		trackedRingZones:     map[string]struct{}{},
		shuffledSubringCache: map[subringCacheKey]*Ring{},
	}
	r.setRingStateFromDesc(d, false, true, true)
	return r, d
}

// The four built-in operations as documented (NOT read back from the Operation value, whose bit encoding is part of the
// code under test): Write and WriteNoExtend accept ACTIVE only, Read accepts ACTIVE, PENDING and LEAVING, Reporting accepts
// every state; Write extends the set on every state but ACTIVE, Read on every state but ACTIVE and LEAVING, the other two never.
func verifOpHealthy(op Operation, s InstanceState) bool {
	switch op {
	case Write, WriteNoExtend:
		return s == ACTIVE
	case Read:
		return s == ACTIVE || s == PENDING || s == LEAVING
	}
	return true
}
func verifOpExtends(op Operation, s InstanceState) bool {
	switch op {
	case Write:
		return s != ACTIVE
	case Read:
		return s != ACTIVE && s != LEAVING
	}
	return false
}

// The encoding of operations, exhaustively over its finite domain: every set of healthy states x every extension
// predicate over the five instance states, and the four built-in operations against their documented tables.
func TestVerifBounded_C01_Operations(t *testing.T) {
	all := []InstanceState{ACTIVE, LEAVING, PENDING, JOINING, LEFT}
	cases, fails := 0, 0
	for h := 0; h < 32; h++ {
		for e := 0; e < 33; e++ { // e == 32: nil predicate
			var hs []InstanceState
			for i, s := range all {
				if h>>i&1 == 1 {
					hs = append(hs, s)
				}
			}
			var fn func(InstanceState) bool
			if e < 32 {
				fn = func(s InstanceState) bool {
					for i, q := range all {
						if q == s {
							return e>>i&1 == 1
						}
					}
					return false
				}
			}
			op := NewOp(hs, fn)
			for i, s := range all {
				cases++
				wantH, wantE := h>>i&1 == 1, e < 32 && e>>i&1 == 1
				if op.IsInstanceInStateHealthy(s) != wantH || op.ShouldExtendReplicaSetOnState(s) != wantE {
					fails++
					if fails <= 5 {
						fmt.Printf("BOUNDED-VIOLATION case=c01-newop:healthy=%05b:extends=%05b:state=%v NewOp result says healthy=%v extends=%v, want healthy=%v extends=%v\n", h, e, s, op.IsInstanceInStateHealthy(s), op.ShouldExtendReplicaSetOnState(s), wantH, wantE)
					}
				}
			}
		}
	}
	for _, op := range []Operation{Write, WriteNoExtend, Read, Reporting} {
		for _, s := range all {
			cases++
			if op.IsInstanceInStateHealthy(s) != verifOpHealthy(op, s) || op.ShouldExtendReplicaSetOnState(s) != verifOpExtends(op, s) {
				fails++
				if fails <= 5 {
					fmt.Printf("BOUNDED-VIOLATION case=c01-builtin-op:%d:state=%v healthy=%v extends=%v, documented healthy=%v extends=%v\n", op, s, op.IsInstanceInStateHealthy(s), op.ShouldExtendReplicaSetOnState(s), verifOpHealthy(op, s), verifOpExtends(op, s))
				}
			}
		}
	}
	fmt.Printf("BOUNDED-CASES name=C01_Operations n=%d distinct=%d bound=EXHAUSTIVE over the finite domain: 32 healthy-state sets x 33 extension predicates (incl. nil) x 5 states through NewOp, and the 4 built-in operations x 5 states against their documented tables\n", cases, cases)
	if fails > 0 {
		t.Fatalf("%d mismatches", fails)
	}
}

// verifWalk is the lookup of the property statement: no early exits, every token is looked at.
func verifWalk(insts []verifInst, key uint32, op Operation, rf, cfgRF int, zoneAware bool) (walked []string) {
	type tok struct {
		t     uint32
		owner int
	}
	var toks []tok
	for i, in := range insts {
		for _, t := range in.tokens {
			toks = append(toks, tok{t, i})
		}
	}
	sort.Slice(toks, func(a, b int) bool { return toks[a].t < toks[b].t })
	if len(toks) == 0 {
		return nil
	}
	start := sort.Search(len(toks), func(i int) bool { return toks[i].t > key }) % len(toks)
	picked := map[int]bool{}
	need := rf
	perZone := map[string]int{}
	target := rf / cfgRF
	if target < 1 {
		target = 1
	}
	for j := 0; j < len(toks); j++ {
		in := insts[toks[(start+j)%len(toks)].owner]
		o := toks[(start+j)%len(toks)].owner
		if picked[o] || len(picked) >= need {
			continue
		}
		if zoneAware && in.zone != "" && perZone[in.zone] >= target {
			continue
		}
		picked[o] = true
		walked = append(walked, in.id)
		if verifOpExtends(op, in.state) {
			need++
		} else if zoneAware && in.zone != "" {
			perZone[in.zone]++
		}
	}
	return walked
}

func TestVerifBounded_C01_Lookup(t *testing.T) {
	seed := int64(1)
	fmt.Sscan(os.Getenv("VERIF_SEED"), &seed)
	rings := 4000
	if os.Getenv("VERIF_TIER") == "thorough" {
		rings = 60000
	}
	rnd := rand.New(rand.NewSource(seed))
	alpha := []uint32{0, 1, 2, 5, 9, 1 << 31, 1<<32 - 3, 1<<32 - 2, 1<<32 - 1}
	keys := []uint32{0, 1, 2, 3, 5, 6, 9, 10, 1<<31 - 1, 1 << 31, 1<<32 - 3, 1<<32 - 2, 1<<32 - 1}
	ops := []Operation{Write, WriteNoExtend, Read, Reporting}
	states := []InstanceState{ACTIVE, ACTIVE, ACTIVE, LEAVING, PENDING, JOINING, LEFT}
	now := time.Now()
	cases, distinct, fails := 0, 0, 0
	bufD, bufH, bufZ := MakeBuffersForGet()
	for it := 0; it < rings; it++ {
		n := 1 + rnd.Intn(5)
		zoneAware := rnd.Intn(2) == 0
		nz := 1 + rnd.Intn(3)
		rf := 1 + rnd.Intn(3)
		perm := rnd.Perm(len(alpha))
		var insts []verifInst
		ti := 0
		for i := 0; i < n; i++ {
			k := rnd.Intn(3)
			if i == 0 {
				k = 1 + rnd.Intn(2)
			}
			var toks []uint32
			for ; k > 0 && ti < len(perm); k-- {
				toks = append(toks, alpha[perm[ti]])
				ti++
			}
			zone := ""
			if zoneAware || rnd.Intn(2) == 0 {
				zone = fmt.Sprintf("z%d", rnd.Intn(nz))
			}
			insts = append(insts, verifInst{fmt.Sprintf("i%d", i), zone, toks, states[rnd.Intn(len(states))], rnd.Intn(5) == 0})
		}
		r, _ := verifRingOf(insts, rf, zoneAware, now)
		distinct++
		byID := map[string]verifInst{}
		for _, in := range insts {
			byID[in.id] = in
		}
		for _, op := range ops {
			for _, key := range keys {
				cases++
				walked := verifWalk(insts, key, op, rf, rf, zoneAware)
				var wantIDs []string
				for _, id := range walked {
					in := byID[id]
					if verifOpHealthy(op, in.state) && !in.stale {
						wantIDs = append(wantIDs, id)
					}
				}
				m := rf
				if len(walked) > m {
					m = len(walked)
				}
				minSuccess := m/2 + 1
				wantErr := len(wantIDs) < minSuccess
				rs, err := r.Get(key, op, bufD, bufH, bufZ)
				var gotIDs []string
				for _, in := range rs.Instances {
					gotIDs = append(gotIDs, in.Id)
				}
				id := fmt.Sprintf("c01:%+v:rf=%d:za=%v:op=%d:key=%d", insts, rf, zoneAware, op, key)
				switch {
				case wantErr != (err != nil):
					fails++
					if fails <= 5 {
						fmt.Printf("BOUNDED-VIOLATION case=%s err=%v but walked=%v healthy=%v minSuccess=%d\n", id, err, walked, wantIDs, minSuccess)
					}
				case err == nil && (fmt.Sprint(gotIDs) != fmt.Sprint(wantIDs) || rs.MaxErrors != len(wantIDs)-minSuccess):
					fails++
					if fails <= 5 {
						fmt.Printf("BOUNDED-VIOLATION case=%s got %v maxErrors=%d, statement says %v maxErrors=%d (walked %v)\n", id, gotIDs, rs.MaxErrors, wantIDs, len(wantIDs)-minSuccess, walked)
					}
				}
			}
		}
	}
	fmt.Printf("BOUNDED-CASES name=C01_Lookup n=%d distinct=%d bound=%d random rings (1..5 instances, 0..2 tokens each from %v, 1..3 zones, RF 1..3, zone-awareness on/off, states incl. leaving/pending/joining, stale heartbeats) x 4 operations x %d boundary keys, seed %d; oracle: the clockwise walk of the property statement without early exits\n", cases, distinct, rings, alpha, len(keys), seed)
	if fails > 0 {
		t.Fatalf("%d mismatches", fails)
	}
}
