// verif-pkg: ring
//
// Bounded stand-in / replay harness for C05 (NOT proof): replicas exchanging ring descriptors with colliding
// token claims; invariants checked after every merge.
package ring

import (
	"fmt"
	"math/rand"
	"os"
	"sort"
	"testing"
	"time"
)

func verifC05Check(d *Desc, where string, report func(id, msg string)) {
	owner := map[uint32]string{}
	for id, e := range d.Ingesters {
		if e.State == LEFT && len(e.Tokens) != 0 {
			report("c05-left-tokens", fmt.Sprintf("%s: LEFT instance %s still holds tokens %v", where, id, e.Tokens))
		}
		for i, tk := range e.Tokens {
			if i > 0 && e.Tokens[i-1] >= tk {
				report("c05-sorted", fmt.Sprintf("%s: tokens of %s not strictly sorted: %v", where, id, e.Tokens))
			}
			if e.State == LEFT {
				continue
			}
			if prev, dup := owner[tk]; dup {
				report("c05-two-owners", fmt.Sprintf("%s: token %d held by %s and %s", where, tk, prev, id))
			}
			owner[tk] = id
		}
	}
}

func verifC05Sig(d *Desc, withTokens bool) string {
	var ids []string
	for id := range d.Ingesters {
		ids = append(ids, id)
	}
	sort.Strings(ids)
	s := ""
	for _, id := range ids {
		e := d.Ingesters[id]
		s += fmt.Sprintf("%s:%d:%v;", id, e.Timestamp, e.State)
		if withTokens {
			s += fmt.Sprint(e.Tokens)
		}
	}
	return s
}

func TestVerifBounded_C05_Replicas(t *testing.T) {
	seed := int64(1)
	fmt.Sscan(os.Getenv("VERIF_SEED"), &seed)
	runs := 400
	if os.Getenv("VERIF_TIER") == "thorough" {
		runs = 6000
	}
	cases, fails := 0, 0
	report := func(id, msg string) {
		fails++
		if fails <= 5 {
			fmt.Printf("BOUNDED-VIOLATION case=%s %s\n", id, msg)
		}
	}
	ids := []string{"a", "b", "c"}
	alpha := []uint32{0, 1, 7, 1 << 31, 1<<32 - 1}
	bufD, bufH, bufZ := MakeBuffersForGet()
	for run := 0; run < runs; run++ {
		rnd := rand.New(rand.NewSource(seed*7919 + int64(run)))
		reps := []*Desc{NewDesc(), NewDesc(), NewDesc()}
		clock := int64(100)
		var trace []string
		// states handed out earlier (Clone shares the token storage with the replica, as the KV store's Get / WatchKey
		// do): whoever holds one keeps seeing exactly what it was handed
		type heldState struct {
			d    *Desc
			sig  string
			when string
		}
		var held []heldState
		for step := 0; step < 14; step++ {
			cases++
			i := rnd.Intn(3)
			switch rnd.Intn(4) {
			case 0, 1: // local write of replica i's own instance through a local CAS (Merge with localCAS)
				clock += int64(rnd.Intn(2))
				next := reps[i].Clone().(*Desc)
				var toks []uint32
				for _, a := range alpha {
					if rnd.Intn(3) == 0 {
						toks = append(toks, a)
					}
				}
				st := []InstanceState{ACTIVE, ACTIVE, LEAVING, JOINING, PENDING}[rnd.Intn(5)]
				if rnd.Intn(6) == 0 {
					delete(next.Ingesters, ids[i]) // unregister: becomes a tombstone
					trace = append(trace, fmt.Sprintf("r%d removes %s", i, ids[i]))
				} else {
					next.AddIngester(ids[i], "addr", "z", toks, st, time.Unix(clock, 0), false, time.Time{}, nil)
					e := next.Ingesters[ids[i]]
					e.Timestamp = clock
					next.Ingesters[ids[i]] = e
					trace = append(trace, fmt.Sprintf("r%d writes %s tokens=%v state=%v ts=%d", i, ids[i], toks, st, clock))
				}
				if _, err := reps[i].mergeWithTime(next, true, time.Unix(clock, 0)); err != nil {
					t.Fatal(err)
				}
			default: // gossip: full state from i to j
				j := rnd.Intn(3)
				if j == i {
					continue
				}
				trace = append(trace, fmt.Sprintf("r%d -> r%d", i, j))
				if _, err := reps[j].Merge(reps[i].Clone(), false); err != nil {
					t.Fatal(err)
				}
			}
			for _, h := range held {
				if now := verifC05Sig(h.d, true); now != h.sig {
					report("c05-held-state-changed", fmt.Sprintf("run %d step %d: a state handed out at %s read %s then and reads %s now; trace %v", run, step, h.when, h.sig, now, trace))
					break
				}
			}
			for ri, r := range reps {
				where := fmt.Sprintf("run %d step %d replica %d trace %v", run, step, ri, trace)
				if len(held) < 12 {
					c := r.Clone().(*Desc)
					held = append(held, heldState{c, verifC05Sig(c, true), fmt.Sprintf("step %d from replica %d", step, ri)})
				}
				verifC05Check(r, where, report)
				// lookups over the state never panic and never report inconsistent tokens
				func() {
					defer func() {
						if p := recover(); p != nil {
							report("c05-panic", fmt.Sprintf("%s: %v", where, p))
						}
					}()
					rg := verifBuildRing(r.Clone().(*Desc), 2, false)
					for _, k := range []uint32{0, 1, 6, 7, 1 << 31, 1<<32 - 1} {
						_, err := rg.Get(k, Write, bufD, bufH, bufZ)
						if err == ErrInconsistentTokensInfo {
							report("c05-inconsistent", where)
						}
					}
					_ = rg.ShuffleShard("tenant", 2)
				}()
			}
			// replicas holding the same entries (token claims included) resolve an identical incoming update identically,
			// whatever the map iteration order: merge the same message into clones several times
			if step%3 == 0 {
				msg := reps[(i+1)%3].Clone().(*Desc)
				base := reps[i]
				var first string
				for rep := 0; rep < 6; rep++ {
					c := base.Clone().(*Desc)
					// deep copy token slices: Merge may modify them in place
					for id, e := range c.Ingesters {
						e.Tokens = append([]uint32(nil), e.Tokens...)
						c.Ingesters[id] = e
					}
					m := msg.Clone().(*Desc)
					for id, e := range m.Ingesters {
						e.Tokens = append([]uint32(nil), e.Tokens...)
						m.Ingesters[id] = e
					}
					if _, err := c.Merge(m, false); err != nil {
						t.Fatal(err)
					}
					sig := verifC05Sig(c, true)
					if rep == 0 {
						first = sig
					} else if sig != first {
						report("c05-different-winner", fmt.Sprintf("run %d step %d: the same entries merged with the same update gave %s and %s; trace %v", run, step, first, sig, trace))
					}
				}
			}
		}
	}
	fmt.Printf("BOUNDED-CASES name=C05_Replicas n=%d distinct=%d bound=%d runs x 14 steps, 3 replicas/instances claiming tokens from %v (collisions likely), local writes through Merge(localCAS) and full-state gossip, seed %d; invariants after every step on every replica; up to 12 earlier handed-out states (clones sharing token storage) re-read after every step\n", cases, cases, runs, alpha, seed)
	if fails > 0 {
		t.Fatalf("%d mismatches", fails)
	}
}

// the winner rule on two-instance collisions, every state pair
func TestVerifBounded_C05_WinnerRule(t *testing.T) {
	cases, fails := 0, 0
	states := []InstanceState{ACTIVE, LEAVING, PENDING, JOINING}
	for _, sa := range states {
		for _, sb := range states {
			cases++
			m := map[string]InstanceDesc{
				"a": {State: sa, Tokens: []uint32{1, 5, 9}},
				"b": {State: sb, Tokens: []uint32{5, 9, 11}},
			}
			resolveConflicts(m)
			want := "a" // smaller identifier wins ...
			if sa == LEAVING && sb != LEAVING {
				want = "b" // ... unless it is leaving and the other is not
			}
			has := func(id string, tk uint32) bool {
				for _, x := range m[id].Tokens {
					if x == tk {
						return true
					}
				}
				return false
			}
			loser := map[string]string{"a": "b", "b": "a"}[want]
			if !has(want, 5) || !has(want, 9) || has(loser, 5) || has(loser, 9) || !has("a", 1) || !has("b", 11) {
				fails++
				fmt.Printf("BOUNDED-VIOLATION case=c05-winner:%v:%v expected %s to keep the contested tokens 5,9: a=%v b=%v\n", sa, sb, want, m["a"].Tokens, m["b"].Tokens)
			}
		}
	}
	fmt.Printf("BOUNDED-CASES name=C05_WinnerRule n=%d distinct=%d bound=two instances, every pair of non-left states, contested and uncontested tokens\n", cases, cases)
	if fails > 0 {
		t.Fatalf("%d mismatches", fails)
	}
}
