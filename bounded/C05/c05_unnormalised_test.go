// verif-pkg: ring
//
// Bounded stand-in / replay harness for C05 (NOT proof): incoming descriptors whose token lists are not normalised
// (unsorted, with or without repeated tokens, as an older sender may produce them) merged into a replica.
package ring

import (
	"fmt"
	"testing"
)

func TestVerifBounded_C05_UnnormalisedIncoming(t *testing.T) {
	cases, fails := 0, 0
	report := func(id, msg string) {
		fails++
		if fails <= 5 {
			fmt.Printf("BOUNDED-VIOLATION case=%s %s\n", id, msg)
		}
	}
	// every ordering (with repetition) of up to three tokens out of {1,2,3,7} for the incoming entry, merged into a replica
	// that is empty, or holds another instance without / with a colliding token
	alpha := []uint32{1, 2, 3, 7}
	var lists [][]uint32
	for a := range alpha {
		lists = append(lists, []uint32{alpha[a]})
		for b := range alpha {
			lists = append(lists, []uint32{alpha[a], alpha[b]})
			for c := range alpha {
				lists = append(lists, []uint32{alpha[a], alpha[b], alpha[c]})
			}
		}
	}
	for _, toks := range lists {
		for base := 0; base < 3; base++ {
			for _, localCAS := range []bool{false, true} {
				cases++
				id := fmt.Sprintf("c05-unnormalised:tokens=%v:base=%d:localCAS=%v", toks, base, localCAS)
				replica := NewDesc()
				switch base {
				case 1:
					replica.Ingesters["other"] = InstanceDesc{Addr: "o", Timestamp: 500, State: ACTIVE, Tokens: []uint32{5, 9}}
				case 2:
					replica.Ingesters["other"] = InstanceDesc{Addr: "o", Timestamp: 500, State: ACTIVE, Tokens: []uint32{2, 9}}
				}
				in := NewDesc()
				if localCAS {
					for k, v := range replica.Ingesters {
						in.Ingesters[k] = v
					}
				}
				in.Ingesters["new"] = InstanceDesc{Addr: "n", Timestamp: 1000, State: ACTIVE, Tokens: append([]uint32{}, toks...)}
				change, err := replica.Merge(in, localCAS)
				if err != nil {
					report(id+":error", err.Error())
					continue
				}
				verifC05Check(replica, id+":state", report)
				if cd, ok := change.(*Desc); ok && cd != nil {
					for n, e := range cd.Ingesters {
						for i := 1; i < len(e.Tokens); i++ {
							if e.Tokens[i-1] >= e.Tokens[i] {
								report(id+":change", fmt.Sprintf("the change to gossip carries an unnormalised token list for %s: %v", n, e.Tokens))
							}
						}
					}
				}
				// the stored entry holds exactly the distinct incoming tokens it won
				got := map[uint32]bool{}
				for _, tk := range replica.Ingesters["new"].Tokens {
					got[tk] = true
				}
				for _, tk := range toks {
					if !got[tk] && !(base == 2 && tk == 2) {
						report(id+":lost-token", fmt.Sprintf("token %d of the incoming entry is neither stored (%v) nor lost to a collision", tk, replica.Ingesters["new"].Tokens))
					}
				}
			}
		}
	}
	fmt.Printf("BOUNDED-CASES name=C05_UnnormalisedIncoming n=%d distinct=%d bound=every ordering with repetition of 1..3 tokens from {1,2,3,7} x 3 replica states (empty, disjoint neighbour, colliding neighbour) x gossip/local merge\n", cases, cases)
	if fails > 0 {
		t.Fatalf("%d mismatches", fails)
	}
}
