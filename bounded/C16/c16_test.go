// verif-pkg: ring
//
// Bounded stand-in / replay harness for C16 (NOT proof): executes the real generators.
package ring

import (
	"fmt"
	"math/rand"
	"os"
	"sort"
	"testing"
)

func TestVerifBounded_C16_SpreadMinimizing(t *testing.T) {
	maxInst := 64
	if os.Getenv("VERIF_TIER") == "thorough" {
		maxInst = 600
	}
	cases, fails := 0, 0
	report := func(id, msg string) {
		fails++
		if fails <= 5 {
			fmt.Printf("BOUNDED-VIOLATION case=%s %s\n", id, msg)
		}
	}
	seen := map[uint32]string{}
	for zone := 0; zone < maxZonesCount; zone++ {
		// the generator for the highest id computes every lower id on the way
		big := NewSpreadMinimizingTokenGeneratorForInstanceAndZoneID("i-", maxInst, zone, false)
		byID, err := big.generateTokensByInstanceID()
		if err != nil {
			report(fmt.Sprintf("c16-gen:zone=%d", zone), err.Error())
			continue
		}
		var zoneTokens []uint32
		for id := 0; id <= maxInst; id++ {
			cases++
			toks := append(Tokens{}, byID[id]...)
			sort.Slice(toks, func(a, b int) bool { return toks[a] < toks[b] })
			if len(toks) != optimalTokensPerInstance {
				report(fmt.Sprintf("c16-count:zone=%d:id=%d", zone, id), fmt.Sprintf("%d tokens", len(toks)))
			}
			for i, tk := range toks {
				if int(tk%maxZonesCount) != zone {
					report(fmt.Sprintf("c16-congruent:zone=%d:id=%d", zone, id), fmt.Sprintf("token %d mod 8 = %d", tk, tk%maxZonesCount))
				}
				if i > 0 && toks[i-1] >= tk {
					report(fmt.Sprintf("c16-sorted:zone=%d:id=%d", zone, id), "not strictly sorted")
				}
				key := fmt.Sprintf("zone=%d:id=%d", zone, id)
				if prev, dup := seen[tk]; dup {
					report("c16-distinct:"+key, fmt.Sprintf("token %d also generated for %s", tk, prev))
				}
				seen[tk] = key
			}
			zoneTokens = append(zoneTokens, toks...)
			// reproducible: a generator built for exactly this id yields the same tokens (sample ids to bound the cost)
			if id <= 8 || id%16 == 0 || id == maxInst {
				own := NewSpreadMinimizingTokenGeneratorForInstanceAndZoneID("other-prefix-", id, zone, true).GenerateTokens(optimalTokensPerInstance, nil)
				if fmt.Sprint(own) != fmt.Sprint(toks) {
					report(fmt.Sprintf("c16-reproducible:zone=%d:id=%d", zone, id), "generator for this id disagrees with the one for a larger id")
				}
			}
			// ownership spread within 1% for every prefix 0..id (checked for zone 0..1 to bound the cost)
			if zone < 2 && id >= 1 {
				sorted := append([]uint32{}, zoneTokens...)
				sort.Slice(sorted, func(a, b int) bool { return sorted[a] < sorted[b] })
				owner := map[uint32]int{}
				for j := 0; j <= id; j++ {
					for _, tk := range byID[j] {
						owner[tk] = j
					}
				}
				own := make([]float64, id+1)
				for i, tk := range sorted {
					prev := sorted[(i+len(sorted)-1)%len(sorted)]
					own[owner[tk]] += float64(tokenDistance(prev, tk))
				}
				mn, mx := own[0], own[0]
				for _, o := range own {
					if o < mn {
						mn = o
					}
					if o > mx {
						mx = o
					}
				}
				if (mx-mn)/mx > 0.01 {
					report(fmt.Sprintf("c16-spread:zone=%d:n=%d", zone, id+1), fmt.Sprintf("spread %.4f", (mx-mn)/mx))
				}
			}
		}
	}
	fmt.Printf("BOUNDED-CASES name=C16_SpreadMinimizing n=%d distinct=%d bound=instance ids 0..%d x zones 0..7: 512 sorted tokens each, congruent to zone mod 8, pairwise distinct across all instances and zones, reproducible from a generator for the exact id, ownership spread <= 1%% for every prefix (zones 0..1)\n", cases, cases, maxInst)
	if fails > 0 {
		t.Fatalf("%d mismatches", fails)
	}
}

func TestVerifBounded_C16_Generators(t *testing.T) {
	seed := int64(1)
	fmt.Sscan(os.Getenv("VERIF_SEED"), &seed)
	rnd := rand.New(rand.NewSource(seed))
	cases, fails := 0, 0
	report := func(id, msg string) {
		fails++
		if fails <= 5 {
			fmt.Printf("BOUNDED-VIOLATION case=%s %s\n", id, msg)
		}
	}
	checkOut := func(id string, out Tokens, taken []uint32, want int, exact bool) {
		tk := map[uint32]bool{}
		for _, x := range taken {
			tk[x] = true
		}
		for i, x := range out {
			if tk[x] {
				report(id+":taken", fmt.Sprintf("token %d already taken", x))
			}
			if i > 0 && out[i-1] >= x {
				report(id+":sorted", "not strictly sorted / duplicate")
			}
		}
		if len(out) > want || (exact && len(out) != want) {
			report(id+":count", fmt.Sprintf("%d tokens, requested %d", len(out), want))
		}
	}
	for it := 0; it < 300; it++ {
		cases++
		g := NewRandomTokenGeneratorWithSeed(rnd.Int63())
		ntaken := rnd.Intn(50)
		taken := make([]uint32, ntaken)
		for i := range taken {
			taken[i] = rnd.Uint32()
		}
		want := rnd.Intn(200)
		checkOut(fmt.Sprintf("c16-random:%d", it), g.GenerateTokens(want, taken), taken, want, true)
	}
	for it := 0; it < 100; it++ {
		cases++
		id, zone := rnd.Intn(20), rnd.Intn(8)
		g := NewSpreadMinimizingTokenGeneratorForInstanceAndZoneID("i-", id, zone, false)
		all := g.GenerateTokens(512, nil)
		// take a random subset of its own tokens and some foreign ones
		var taken []uint32
		for _, x := range all {
			if rnd.Intn(3) == 0 {
				taken = append(taken, x)
			}
		}
		// the taken tokens are a set: their order carries no meaning (sorted, reversed, shuffled, with foreign tokens mixed in)
		for k := 0; k < rnd.Intn(5); k++ {
			taken = append(taken, rnd.Uint32()|1<<31|7) // foreign: not congruent with any zone's own tokens unless zone 7
		}
		switch it % 3 {
		case 1:
			for a, b := 0, len(taken)-1; a < b; a, b = a+1, b-1 {
				taken[a], taken[b] = taken[b], taken[a]
			}
		case 2:
			rnd.Shuffle(len(taken), func(a, b int) { taken[a], taken[b] = taken[b], taken[a] })
		}
		own := map[uint32]bool{}
		for _, x := range all {
			own[x] = true
		}
		want := rnd.Intn(513)
		free := 512
		for _, x := range taken {
			if own[x] {
				free--
				own[x] = false
			}
		}
		out := g.GenerateTokens(want, taken)
		checkOut(fmt.Sprintf("c16-spread-filter:%d", it), out, taken, want, false)
		exp := want
		if free < exp {
			exp = free
		}
		if len(out) != exp {
			report(fmt.Sprintf("c16-spread-filter:%d:count", it), fmt.Sprintf("%d tokens, expected %d (requested %d, free %d)", len(out), exp, want, free))
		}
	}
	fmt.Printf("BOUNDED-CASES name=C16_Generators n=%d distinct=%d bound=300 random-generator runs (<=50 taken, <=200 requested) and 100 spread-minimising filter runs with random taken subsets in sorted, reversed and shuffled order, seed %d\n", cases, cases, seed)
	if fails > 0 {
		t.Fatalf("%d mismatches", fails)
	}
}

// Large zones: beyond ~1100 instances per zone the generator starts to skip instances whose widest token cannot be
// split (the "ignored instances" path). One generator run for id 1300 per zone; spread checked at selected prefixes.
func TestVerifBounded_C16_LargeZone(t *testing.T) {
	zones := []int{0}
	if os.Getenv("VERIF_TIER") == "thorough" {
		zones = []int{0, 3, 7}
	}
	const maxInst = 1300
	prefixes := []int{600, 900, 1100, 1113, 1125, 1150, 1200, 1250, 1301}
	cases, fails := 0, 0
	report := func(id, msg string) {
		fails++
		if fails <= 5 {
			fmt.Printf("BOUNDED-VIOLATION case=%s %s\n", id, msg)
		}
	}
	for _, zone := range zones {
		byID, err := NewSpreadMinimizingTokenGeneratorForInstanceAndZoneID("i-", maxInst, zone, false).generateTokensByInstanceID()
		if err != nil {
			report(fmt.Sprintf("c16-large-gen:zone=%d", zone), err.Error())
			continue
		}
		owner := make(map[uint32]int, (maxInst+1)*optimalTokensPerInstance)
		for id := 0; id <= maxInst; id++ {
			cases++
			if len(byID[id]) != optimalTokensPerInstance {
				report(fmt.Sprintf("c16-large-count:zone=%d:id=%d", zone, id), fmt.Sprintf("%d tokens", len(byID[id])))
			}
			for _, tk := range byID[id] {
				if int(tk%maxZonesCount) != zone {
					report(fmt.Sprintf("c16-large-congruent:zone=%d:id=%d", zone, id), fmt.Sprintf("token %d", tk))
				}
				if prev, dup := owner[tk]; dup {
					report(fmt.Sprintf("c16-large-distinct:zone=%d:id=%d", zone, id), fmt.Sprintf("token %d also generated for id %d", tk, prev))
				}
				owner[tk] = id
			}
		}
		for _, n := range prefixes {
			cases++
			var sorted []uint32
			for id := 0; id < n; id++ {
				sorted = append(sorted, byID[id]...)
			}
			sort.Slice(sorted, func(a, b int) bool { return sorted[a] < sorted[b] })
			own := make([]float64, n)
			for i, tk := range sorted {
				prev := sorted[(i+len(sorted)-1)%len(sorted)]
				own[owner[tk]] += float64(tokenDistance(prev, tk))
			}
			mn, mx := own[0], own[0]
			for _, o := range own {
				if o < mn {
					mn = o
				}
				if o > mx {
					mx = o
				}
			}
			if (mx-mn)/mx > 0.01 {
				report(fmt.Sprintf("c16-large-spread:zone=%d:n=%d", zone, n), fmt.Sprintf("spread %.4f", (mx-mn)/mx))
			}
		}
	}
	fmt.Printf("BOUNDED-CASES name=C16_LargeZone n=%d distinct=%d bound=zones %v, one generator run for instance id %d: 512 tokens each, congruent, pairwise distinct within the zone; ownership spread <= 1%% at prefixes %v (covers the ignored-instances path, first taken at about 1112 instances)\n", cases, cases, zones, maxInst, prefixes)
	if fails > 0 {
		t.Fatalf("%d mismatches", fails)
	}
}
