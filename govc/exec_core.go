package main

// Symbolic execution core: states, merging, obligations.

import (
	"fmt"
	"go/ast"
	"go/token"
	"go/types"
	"sort"
	"strings"
)

type Obligation struct {
	Name    string
	Kind    string
	Func    string // pkg.key
	NDecls  int    // prefix of ctx.decls this obligation may use
	PC      Term
	Goal    Term
	Pos     string
	Text    string // human readable goal
	Cover   bool   // satisfiability (vacuity) check: expected sat
	Result  string // discharged | failed | unknown | timeout
	Backend string
	Millis  int64
	Output  string
	script  string
	syntactic bool
}

// provenance of a local pointer read from a map of pointers: writes through the local are written back to the entry
type provInfo struct {
	mapExpr ast.Expr
	key     Term
}

type State struct {
	prov  map[types.Object]provInfo
	vars  map[types.Object]Term
	ghost map[string]Term
	pc    Term
	ret   []Term
	dead  bool
}

func (s *State) clone() *State {
	n := &State{vars: make(map[types.Object]Term, len(s.vars)), ghost: make(map[string]Term, len(s.ghost)), pc: s.pc}
	for k, v := range s.vars {
		n.vars[k] = v
	}
	for k, v := range s.ghost {
		n.ghost[k] = v
	}
	n.ret = s.ret
	if len(s.prov) > 0 {
		n.prov = make(map[types.Object]provInfo, len(s.prov))
		for k, v := range s.prov {
			n.prov[k] = v
		}
	}
	return n
}

type Flow struct {
	normal *State
	rets   []*State
	brk    map[string][]*State
	cont   map[string][]*State
}

func newFlow(s *State) *Flow {
	return &Flow{normal: s, brk: map[string][]*State{}, cont: map[string][]*State{}}
}

func (f *Flow) absorb(o *Flow) {
	f.rets = append(f.rets, o.rets...)
	for k, v := range o.brk {
		f.brk[k] = append(f.brk[k], v...)
	}
	for k, v := range o.cont {
		f.cont[k] = append(f.cont[k], v...)
	}
}

type unsupported struct{ msg string }

type Exec struct {
	u        *Unit
	w        *World
	info     *types.Info
	fset     *token.FileSet
	key      string
	fullKey  string
	ct       *Contract
	sig      *types.Signature
	recv     *types.Var
	params   []*types.Var
	results  []*types.Var
	resNames []string
	oldEnv   *Env
	obls     []*Obligation
	names    map[string]int
	loopOrd  map[ast.Stmt]int
	loopCur  []int
	labels   map[ast.Stmt]string
	defers   []*ast.DeferStmt
	closureAssigned map[types.Object]bool
	body     *ast.BlockStmt
	curHidden map[string]Term
	abstracted []string
	litIndex map[*ast.FuncLit]int
	closures map[types.Object]*ast.FuncLit
	inlineDepth int
	initGlobals bool
	modelWrite int
	hideFrom, hideTo token.Pos // spec name lookup skips Go variables declared in this source range (loop bodies, for invariants)
	noClosureExpand bool
	aliases map[string]string // contract name of a renamed local -> its current name
	loopNodes []ast.Stmt // enclosing loops of the statement being executed (outermost first)
	curPos    token.Pos  // position of the statement / call being executed
	anchorOrd map[*ast.CallExpr]int
	sendOrd   map[*ast.SendStmt]int
	sendCnt   map[string]int
	anchorCnt map[string]int
	lostInvs   map[string]bool // loop invariants that could not be read against the current body
	anchorsHit map[string]bool // call anchors (before@/after@) that matched at least one call site
	litEscapes bool // some function literal of this function may be retained and invoked later
}

func (x *Exec) unsupported(n ast.Node, format string, a ...any) {
	pos := ""
	if n != nil {
		pos = x.fset.Position(n.Pos()).String() + ": "
	}
	panic(unsupported{pos + fmt.Sprintf(format, a...)})
}

func (x *Exec) posOf(n ast.Node) string {
	if n == nil {
		return ""
	}
	p := x.fset.Position(n.Pos())
	return fmt.Sprintf("%s:%d", strings.TrimPrefix(p.Filename, repoDir+"/"), p.Line)
}

func (x *Exec) c() *Ctx { return x.u.c }

// setPC names the path condition to keep terms small.
func (x *Exec) assume(st *State, t Term) {
	if t.S == "true" {
		return
	}
	if strings.Contains(t.S, "(forall ") || strings.Contains(t.S, "(exists ") {
		// Quantified facts are kept out of the path conditions: pc gets a fresh activation literal b and the
		// fact is asserted once, positively, as (=> b fact). Path conditions (which also serve as ite guards where
		// paths merge) stay quantifier-free, so the solvers never see a quantifier in a negative or mixed position.
		b := x.c().freshName("act")
		x.c().emit(fmt.Sprintf("(declare-const %s Bool)", b))
		x.c().emit(fmt.Sprintf("(assert (=> %s %s))", b, t.S))
		t = Term{S: b, Sort: sortBool}
	}
	st.pc = x.namePC(tAnd(st.pc, t))
}

func (x *Exec) namePC(t Term) Term {
	if len(t.S) < 24 {
		return t
	}
	n := x.c().freshName("pc")
	x.c().emit(fmt.Sprintf("(define-fun %s () Bool %s)", n, t.S))
	return Term{S: n, Sort: sortBool}
}

func (x *Exec) oblName(kind, label string) string {
	base := fmt.Sprintf("%s#%s", x.fullKey, kind)
	if label != "" {
		base += ":" + label
	}
	x.names[base]++
	if n := x.names[base]; n > 1 {
		return fmt.Sprintf("%s~%d", base, n)
	}
	return base
}

// assert records a proof obligation and then assumes the goal.
func (x *Exec) assert(st *State, goal Term, kind, label string, n ast.Node, text string) {
	if goal.S == "true" {
		// A contract-level obligation that simplifies to `true` is still recorded (discharged syntactically): whether it
		// simplifies depends on incidental term structure, and an obligation that comes and goes with harmless edits
		// would be reported as lost. Safety obligations (bounds, nil) that are trivially true are not recorded.
		switch kind {
		case "post", "inv-init", "inv-keep", "lemma", "lemma-step", "frame", "ghost-assert", "dec", "dec-bound":
			x.obls = append(x.obls, &Obligation{Name: x.oblName(kind, label), Kind: kind, Func: x.fullKey, PC: tTrue, Goal: tTrue, Pos: x.posOf(n), Text: text, syntactic: true})
		}
		return
	}
	o := &Obligation{Name: x.oblName(kind, label), Kind: kind, Func: x.fullKey, NDecls: len(x.c().decls), PC: st.pc, Goal: goal, Pos: x.posOf(n), Text: text}
	x.obls = append(x.obls, o)
	x.assume(st, goal)
}

func (x *Exec) cover(st *State, kind, label string, n ast.Node, text string) {
	o := &Obligation{Name: x.oblName(kind, label), Kind: kind, Func: x.fullKey, NDecls: len(x.c().decls), PC: st.pc, Goal: tFalse, Pos: x.posOf(n), Text: text, Cover: true}
	x.obls = append(x.obls, o)
}

// merge joins states reaching the same program point.
func (x *Exec) merge(states []*State) *State {
	var live []*State
	for _, s := range states {
		if s != nil && !s.dead && s.pc.S != "false" {
			live = append(live, s)
		}
	}
	if len(live) == 0 {
		return nil
	}
	if len(live) == 1 {
		return live[0]
	}
	res := live[0]
	for _, s := range live[1:] {
		res = x.merge2(res, s)
	}
	return res
}

func (x *Exec) merge2(a, b *State) *State {
	c := x.c()
	out := &State{vars: map[types.Object]Term{}, ghost: map[string]Term{}}
	out.pc = x.namePC(tOr(a.pc, b.pc))
	// deterministic order
	var objs []types.Object
	for o := range a.vars {
		if _, ok := b.vars[o]; ok {
			objs = append(objs, o)
		} else {
			// only defined on one side (out of scope on the other): keep it, its value elsewhere is irrelevant
			out.vars[o] = a.vars[o]
		}
	}
	for o := range b.vars {
		if _, ok := a.vars[o]; !ok {
			out.vars[o] = b.vars[o]
		}
	}
	sort.Slice(objs, func(i, j int) bool {
		if objs[i].Pos() != objs[j].Pos() {
			return objs[i].Pos() < objs[j].Pos()
		}
		return objs[i].Name() < objs[j].Name()
	})
	for _, o := range objs {
		ta, tb := a.vars[o], b.vars[o]
		if ta.S == tb.S {
			out.vars[o] = ta
			continue
		}
		m := tIte(a.pc, ta, tb)
		d := c.define(o.Name(), m)
		d.Go = ta.Go
		out.vars[o] = d
	}
	for o, pa := range a.prov {
		if pb, ok := b.prov[o]; ok && pb.key.S == pa.key.S && pb.mapExpr == pa.mapExpr {
			if out.prov == nil {
				out.prov = map[types.Object]provInfo{}
			}
			out.prov[o] = pa
		}
	}
	var gs []string
	for g := range a.ghost {
		if _, ok := b.ghost[g]; ok {
			gs = append(gs, g)
		}
	}
	sort.Strings(gs)
	for _, g := range gs {
		ta, tb := a.ghost[g], b.ghost[g]
		if ta.S == tb.S {
			out.ghost[g] = ta
			continue
		}
		out.ghost[g] = c.define(g, tIte(a.pc, ta, tb))
	}
	if len(a.ret) == len(b.ret) && len(a.ret) > 0 {
		out.ret = make([]Term, len(a.ret))
		for i := range a.ret {
			if a.ret[i].S == b.ret[i].S {
				out.ret[i] = a.ret[i]
			} else {
				d := c.define("ret", tIte(a.pc, a.ret[i], b.ret[i]))
				d.Go = a.ret[i].Go
				out.ret[i] = d
			}
		}
	}
	return out
}

// havocVar gives a variable a fresh value constrained only by its type.
func (x *Exec) havocVar(st *State, o types.Object) {
	old, ok := st.vars[o]
	var s *Sort
	if ok {
		s = old.Sort
	} else {
		s = x.c().sortOf(o.Type())
	}
	t := x.c().fresh(o.Name(), s)
	t.Go = o.Type()
	x.c().axiom(x.c().typeFacts(t, o.Type(), 0))
	if ok && s.Kind == KPtr {
		// a pointer variable keeps pointing to the same object: only the pointee changes
		x.c().axiom(tEq(x.c().ptrIsNil(t), x.c().ptrIsNil(old)))
	}
	st.vars[o] = t
}

func (x *Exec) freshOf(hint string, gt types.Type) Term {
	s := x.c().sortOf(gt)
	t := x.c().fresh(hint, s)
	t.Go = gt
	x.c().axiom(x.c().typeFacts(t, gt, 0))
	return t
}

// specEnv builds the environment for evaluating contract expressions in a state.
func (x *Exec) specEnv(st *State) *Env {
	env := &Env{u: x.u, vars: map[string]Term{}, old: x.oldEnv}
	env.lookup = func(name string) (Term, bool) {
		if t, ok := st.ghost[name]; ok {
			return t, true
		}
		if t, ok := x.curHidden[name]; ok {
			// positional aliases of loop variables ($i, $k, $visited, $coll)
			if strings.HasPrefix(t.S, "ghost:") {
				if g, ok := st.ghost[t.S[6:]]; ok {
					return g, true
				}
			} else if strings.HasPrefix(t.S, "var:") {
				name = t.S[4:]
			}
		}
		if nw, ok := x.aliases[name]; ok {
			found := false
			for o := range st.vars {
				if o.Name() == name {
					found = true
				}
			}
			if !found {
				name = nw
			}
		}
		var best types.Object
		for o := range st.vars {
			if o.Name() == name {
				if x.hideTo > x.hideFrom && o.Pos() >= x.hideFrom && o.Pos() < x.hideTo {
					continue
				}
				if best == nil || o.Pos() > best.Pos() {
					best = o
				}
			}
		}
		if best != nil {
			return st.vars[best], true
		}
		return Term{}, false
	}
	return env
}
