package main

// Verification units: functions under contract, function literals, lemmas.

import (
	"fmt"
	"go/ast"
	"go/types"
	"sort"
	"strings"

	"golang.org/x/tools/go/packages"
)

type pkgT = *packages.Package

type UnitResult struct {
	Key        string // pkg.key
	Pkg        string
	Props      []string
	Kind       string // func | lemma
	Obls       []*Obligation
	Err        string // translation failure
	Notes      []string
	Abstracted []string
	decls      []string
	Locals     [][2]string // local variables (receiver, parameters, results, body) in source order: name, type
	File       string
	Line       int
}

func pkgRel(p pkgT) string { return strings.TrimPrefix(p.PkgPath, modPath+"/") }

// findBody locates the declaration (or literal) for a contract key.
func (w *World) findBody(p pkgT, key string) (*ast.FuncType, *ast.BlockStmt, *types.Signature, *ast.FuncDecl, *ast.FuncLit) {
	outer := key
	var litPath []int
	if i := strings.Index(key, "$"); i > 0 {
		outer = key[:i]
		for _, s := range strings.Split(key[i+1:], "$") {
			n := 0
			fmt.Sscanf(s, "%d", &n)
			litPath = append(litPath, n)
		}
	}
	if strings.HasPrefix(outer, "init") {
		// init functions: init (first), init#2 (second) ...
		want := 1
		wantFile := ""
		if i := strings.Index(outer, "#"); i > 0 {
			fmt.Sscanf(outer[i+1:], "%d", &want)
		}
		if i := strings.Index(outer, "@"); i > 0 {
			wantFile = outer[i+1:] // init@file.go
		}
		n := 0
		for _, f := range p.Syntax {
			if wantFile != "" && !strings.HasSuffix(p.Fset.Position(f.Pos()).Filename, "/"+wantFile) {
				continue
			}
			for _, d := range f.Decls {
				if fd, ok := d.(*ast.FuncDecl); ok && fd.Name.Name == "init" && fd.Recv == nil {
					n++
					if n == want {
						return fd.Type, fd.Body, types.NewSignatureType(nil, nil, nil, nil, nil, false), fd, nil
					}
				}
			}
		}
		return nil, nil, nil, nil, nil
	}
	fn := w.findFunc(p, outer)
	if fn == nil {
		return nil, nil, nil, nil, nil
	}
	fd := w.funcDecls[fn]
	if fd == nil || fd.Body == nil {
		return nil, nil, nil, nil, nil
	}
	if len(litPath) == 0 {
		return fd.Type, fd.Body, fn.Type().(*types.Signature), fd, nil
	}
	var cur ast.Node = fd.Body
	var lit *ast.FuncLit
	for _, n := range litPath {
		lits := directLits(cur)
		if n < 1 || n > len(lits) {
			return nil, nil, nil, nil, nil
		}
		lit = lits[n-1]
		cur = lit.Body
	}
	sig, _ := p.TypesInfo.TypeOf(lit).(*types.Signature)
	return lit.Type, lit.Body, sig, fd, lit
}

// directLits lists function literals directly nested in a node (not inside other literals), in source order.
func directLits(n ast.Node) []*ast.FuncLit {
	var out []*ast.FuncLit
	ast.Inspect(n, func(m ast.Node) bool {
		if l, ok := m.(*ast.FuncLit); ok && m != n {
			out = append(out, l)
			return false
		}
		return true
	})
	return out
}

func (w *World) verifyFunc(p pkgT, cs *ContractSet, ct *Contract) (res *UnitResult) {
	res = &UnitResult{Key: pkgRel(p) + "." + ct.Key, Pkg: pkgRel(p), Props: ct.Props, Kind: "func"}
	ftype, body, sig, fd, lit := w.findBody(p, ct.Key)
	if body == nil {
		res.Err = "function not found in package (contract anchor lost): " + ct.Key
		return
	}
	pos := p.Fset.Position(body.Pos())
	res.File, res.Line = strings.TrimPrefix(pos.Filename, repoDir+"/"), pos.Line
	u := &Unit{c: newCtx(), pkg: p, cs: cs, defined: map[string]bool{}, world: w}
	u.c.emit("(declare-const time.zero Int)")
	x := &Exec{u: u, w: w, info: p.TypesInfo, fset: p.Fset, key: ct.Key, fullKey: res.Key, ct: ct, sig: sig,
		names: map[string]int{}, loopOrd: map[ast.Stmt]int{}, labels: map[ast.Stmt]string{}, closureAssigned: map[types.Object]bool{}, body: body, curHidden: map[string]Term{}}
	x.initGlobals = strings.HasPrefix(ct.Key, "init")
	defer func() {
		res.Obls = x.obls
		res.decls = u.c.decls
		for n := range u.c.notes {
			res.Notes = append(res.Notes, n)
		}
		sort.Strings(res.Notes)
		res.Abstracted = x.abstracted
		if r := recover(); r != nil {
			switch e := r.(type) {
			case unsupported:
				res.Err = "outside the supported subset: " + e.msg
			case specErr:
				res.Err = "contract error: " + e.msg
			default:
				panic(r)
			}
		}
	}()
	// local variables in declaration order; a contract written against older names is re-bound when locals were renamed
	{
		var scopeNode ast.Node = body
		if fd != nil {
			scopeNode = fd
		} else if lit != nil {
			scopeNode = lit
		}
		res.Locals = localsOf(p.TypesInfo, scopeNode)
		x.aliases = renameAliases(w.ledgerLocals[res.Key], res.Locals)
		for old, nw := range x.aliases {
			u.c.note(fmt.Sprintf("local variable %s of %s is called %s now: the contract is read with the new name", old, res.Key, nw))
		}
	}
	u.ensureAxioms()
	if len(ct.NoWrite) > 0 {
		x.memFrame(ftype, fd, body)
	}
	x.sharedAppend(body)
	// nocall: syntactic frame obligation, one per named callee (qualified as in call anchors)
	for _, want := range ct.NoCall {
		var sites []string
		ast.Inspect(body, func(m ast.Node) bool {
			if call, ok := m.(*ast.CallExpr); ok {
				if fn := x.callee(call); fn != nil {
					q := funcKey(fn)
					if fn.Pkg() != nil {
						q = fn.Pkg().Name() + "." + q
					}
					if q == want {
						sites = append(sites, x.posOf(call))
					}
				}
			}
			return true
		})
		goal, txt := tTrue, "the function contains no call of "+want
		if len(sites) > 0 {
			goal, txt = tFalse, "the function must not call "+want+" but does at "+strings.Join(sites, ", ")
		}
		x.obls = append(x.obls, &Obligation{Name: x.fullKey + "#nocall:" + want, Kind: "frame", Func: x.fullKey, PC: tTrue, Goal: goal, syntactic: true, Pos: x.posOf(body), Text: txt})
	}
	// number loops in source pre-order (function literals excluded)
	n := 0
	ast.Inspect(body, func(m ast.Node) bool {
		switch s := m.(type) {
		case *ast.FuncLit:
			return m == ast.Node(lit)
		case *ast.ForStmt:
			x.loopOrd[s] = n
			n++
		case *ast.RangeStmt:
			x.loopOrd[s] = n
			n++
		}
		return true
	})
	// A loop contract whose loop no longer exists (the function was restructured) is a failed obligation of its own,
	// "#anchor:loop<k>"; the rest of the contract (pre / postconditions, ghost assertions, the loops that do exist) is still
	// verified against the new body, so a restructuring that also changes the behaviour is reported by the postcondition it
	// breaks and not only as a lost anchor.
	{
		var lost []int
		for ord := range ct.Loops {
			if ord >= n {
				lost = append(lost, ord)
			}
		}
		if len(lost) > 0 {
			sort.Ints(lost)
			ct2 := *ct
			ct2.Loops = map[int]*LoopSpec{}
			for ord, ls := range ct.Loops {
				if ord < n {
					ct2.Loops[ord] = ls
				}
			}
			x.ct = &ct2
			for _, ord := range lost {
				x.obls = append(x.obls, &Obligation{Name: fmt.Sprintf("%s#anchor:loop%d", x.fullKey, ord), Kind: "anchor", Func: x.fullKey, PC: tTrue, Goal: tFalse, syntactic: true,
					Pos: x.posOf(body), Text: fmt.Sprintf("contract names loop %d but the function has %d loops (anchor lost): the loop contract is not checked", ord, n)})
			}
		}
	}
	// variables assigned inside nested closures
	for _, l := range directLits(body) {
		for o := range x.assignedInLit(l) {
			x.closureAssigned[o] = true
		}
	}
	// a literal passed directly to a call with a contract is only invoked during that call (assumption: contracted
	// callees do not retain closures); any other use lets it escape, and then every call through a function value
	// may run it.
	{
		var stack []ast.Node
		ast.Inspect(body, func(n ast.Node) bool {
			if n == nil {
				stack = stack[:len(stack)-1]
				return true
			}
			if l, ok := n.(*ast.FuncLit); ok && n != ast.Node(lit) {
				esc := true
				if len(stack) > 0 {
					if call, ok := stack[len(stack)-1].(*ast.CallExpr); ok && call.Fun != ast.Expr(l) {
						if fn := x.callee(call); fn != nil {
							if ct, _, _ := w.contractFor(p, fn); ct != nil {
								esc = false
							}
						}
					}
				}
				if esc {
					x.litEscapes = true
				}
				// literals nested inside this one belong to it: they can only run when it runs
				return false
			}
			stack = append(stack, n)
			return true
		})
		if !x.litEscapes && len(x.closureAssigned) > 0 {
			u.c.note("function literals of " + res.Key + " are passed only to contracted callees: assumed to run only during those calls")
		}
	}
	st := &State{vars: map[types.Object]Term{}, ghost: map[string]Term{}, pc: tTrue}
	bindParam := func(v *types.Var) {
		if v == nil || v.Name() == "" || v.Name() == "_" {
			return
		}
		t := x.freshOf(v.Name(), v.Type())
		st.vars[v] = t
		if t.Sort.Kind == KPtr {
			// receivers and pointer parameters are non-nil unless the contract says otherwise (option nilable)
			if ct.Options["nilable"] == "" || !strings.Contains(" "+ct.Options["nilable"]+" ", " "+v.Name()+" ") {
				x.assume(st, tNot(u.c.ptrIsNil(t)))
				u.c.note("pointer parameter assumed non-nil: " + v.Name() + " in " + res.Key)
			}
		}
	}
	if fd != nil && lit == nil && sig.Recv() != nil {
		x.recv = sig.Recv()
		bindParam(sig.Recv())
	}
	for i := 0; i < sig.Params().Len(); i++ {
		bindParam(sig.Params().At(i))
		x.params = append(x.params, sig.Params().At(i))
	}
	if lit != nil {
		// captured variables of a literal are parameters of the unit
		for _, o := range capturedVars(p.TypesInfo, lit) {
			t := x.freshOf(o.Name(), o.Type())
			st.vars[o] = t
			if t.Sort.Kind == KPtr {
				x.assume(st, tNot(u.c.ptrIsNil(t)))
			}
		}
	}
	// results
	if ftype.Results != nil {
		i := 0
		for _, f := range ftype.Results.List {
			if len(f.Names) == 0 {
				i++
				continue
			}
			for _, nm := range f.Names {
				if v, ok := p.TypesInfo.Defs[nm].(*types.Var); ok {
					x.results = append(x.results, v)
					st.vars[v] = u.c.zero(u.c.sortOf(v.Type()), v.Type())
				}
				i++
			}
		}
	}
	if x.initGlobals {
		// package-level variables assigned by this init function start at their zero value
		for o := range x.assignedIn(body) {
			if v, ok := o.(*types.Var); ok && v.Pkg() != nil && v.Parent() == v.Pkg().Scope() {
				z := u.c.zero(u.c.sortOf(v.Type()), v.Type())
				z.Go = v.Type()
				st.vars[v] = z
			}
		}
		u.c.note("init function: package-level variables it assigns are assumed to start at their zero value (no initialiser expression, no earlier init in file order touches them)")
	}
	// entry environment for old()
	entry := st.clone()
	x.oldEnv = x.specEnv(entry)
	x.oldEnv.old = nil
	// ghost variables
	for _, g := range ct.Ghosts {
		env := x.specEnv(st)
		var v Term
		if g.Init.Op == "ident" && g.Init.Name == "havoc" {
			gs, _ := u.sortOfTypeStr(g.Type)
			v = u.c.fresh(g.Name, gs)
		} else {
			v = x.safeSpec(env, g.Init, "ghost var "+g.Name)
		}
		st.ghost[g.Name] = v
		entry.ghost[g.Name] = v
	}
	for i, r := range ct.Requires {
		_ = i
		x.assume(st, x.safeSpec(x.specEnv(st), r.Expr, "requires"))
	}
	x.cover(st, "cover", "requires", body, "preconditions are satisfiable")
	x.runGhost(st, ct.Entry, "entry", body)
	fl := x.block(st, body.List)
	ends := fl.rets
	if fl.normal != nil {
		// fell off the end
		var vals []Term
		for _, r := range x.results {
			vals = append(vals, fl.normal.vars[r])
		}
		fl.normal.ret = vals
		ends = append(ends, fl.normal)
	}
	for k := range fl.brk {
		if len(fl.brk[k]) > 0 {
			panic(unsupported{"break / backward goto outside the supported subset: " + k})
		}
	}
	final := x.merge(ends)
	if final == nil {
		return
	}
	// deferred calls (run after the result values are set)
	for i := len(x.defers) - 1; i >= 0; i-- {
		d := x.defers[i]
		if _, isLit := ast.Unparen(d.Call.Fun).(*ast.FuncLit); isLit {
			x.abstractNote(d, "deferred closure: variables it assigns are havocked at exit")
			for o := range x.assignedInLit(ast.Unparen(d.Call.Fun).(*ast.FuncLit)) {
				if _, ok := final.vars[o]; ok {
					x.havocVar(final, o)
				}
			}
			continue
		}
		x.call(final, d.Call)
	}
	nres := sig.Results().Len()
	for i := 0; i < nres && i < len(final.ret); i++ {
		rv := final.ret[i]
		if i < len(x.results) {
			rv = final.vars[x.results[i]]
		}
		final.ghost[fmt.Sprintf("r%d", i)] = rv
	}
	x.runGhost(final, ct.Exit, "exit", body)
	// a call anchor that matched no call site is a vacuity hole (its ghost statements and assertions never ran)
	var dead []string
	for a := range ct.CallGhost {
		if !x.anchorsHit[a] {
			dead = append(dead, a)
		}
	}
	// Each dead anchor is a failed obligation of its own ("#anchor:<anchor>"); the postconditions below are still checked.
	sort.Strings(dead)
	for _, a := range dead {
		x.obls = append(x.obls, &Obligation{Name: fmt.Sprintf("%s#anchor:%s", x.fullKey, a), Kind: "anchor", Func: x.fullKey, PC: tTrue, Goal: tFalse, syntactic: true,
			Pos: x.posOf(body), Text: "call anchor matches no call site (anchor lost): its ghost statements and assertions never ran: " + a})
	}
	env := x.specEnv(final)
	for i := 0; i < nres && i < len(final.ret); i++ {
		rv := final.ret[i]
		if i < len(x.results) {
			rv = final.vars[x.results[i]]
		}
		env.vars[fmt.Sprintf("r%d", i)] = rv
		if rn := sig.Results().At(i).Name(); rn != "" && rn != "_" {
			env.vars[rn] = rv
		}
	}
	if nres == 1 && len(final.ret) == 1 {
		env.vars["result"] = env.vars["r0"]
	}
	// value parameters denote their entry values in postconditions
	bindOld := func(v *types.Var) {
		if v == nil || v.Name() == "" || v.Name() == "_" {
			return
		}
		t, ok := entry.vars[v]
		if !ok {
			return
		}
		if isRefLike(t) && !(ct.Pure || (len(ct.Modifies) == 1 && ct.Modifies[0] == "nothing")) {
			if ct.Modifies == nil {
				return
			}
			for _, m := range ct.Modifies {
				if m == v.Name() {
					return
				}
			}
		}
		env.vars[v.Name()] = t
	}
	for _, pv := range x.params {
		bindOld(pv)
	}
	if x.recv != nil {
		bindOld(x.recv)
		if t, ok := env.get(x.recv.Name()); ok {
			env.vars["recv"] = t
		}
		if t, ok := entry.vars[x.recv]; ok {
			x.oldEnv.vars["recv"] = t
		}
	}
	// frame: "modifies nothing" / pure means reference parameters are unchanged
	if ct.Pure || (len(ct.Modifies) == 1 && ct.Modifies[0] == "nothing") {
		var objs []*types.Var
		if x.recv != nil {
			objs = append(objs, x.recv)
		}
		objs = append(objs, x.params...)
		for _, v := range objs {
			if t, ok := entry.vars[v]; ok && isRefLike(t) {
				if ft, ok := final.vars[v]; ok {
					lbl := v.Name()
					for oldName, nw := range x.aliases {
						if nw == lbl {
							lbl = oldName // obligation names keep the name recorded in the ledger
						}
					}
					x.assert(final, tEq(ft, t), "frame", lbl, body, v.Name()+" is not modified")
				}
			}
		}
	}
	for i, e := range ct.Ensures {
		lbl := e.Label
		if lbl == "" {
			lbl = fmt.Sprint(i)
		}
		x.assert(final, x.safeSpec(env, e.Expr, "ensures"), "post", lbl, body, e.Raw)
	}
	return
}

// assignedInLitShallow: what the literal's own statements assign (calls to unknown code inside it are not expanded).
func (x *Exec) assignedInLitShallow(l *ast.FuncLit) map[types.Object]bool {
	saved := x.noClosureExpand
	x.noClosureExpand = true
	defer func() { x.noClosureExpand = saved }()
	return x.assignedInLit(l)
}

func (x *Exec) assignedInLit(l *ast.FuncLit) map[types.Object]bool {
	out := map[types.Object]bool{}
	inner := x.assignedIn(l.Body)
	for o := range inner {
		if o.Pos() < l.Pos() || o.Pos() > l.End() {
			out[o] = true
		}
	}
	// nested literals too
	for _, nl := range directLits(l.Body) {
		for o := range x.assignedInLit(nl) {
			if o.Pos() < l.Pos() || o.Pos() > l.End() {
				out[o] = true
			}
		}
	}
	return out
}

func capturedVars(info *types.Info, lit *ast.FuncLit) []*types.Var {
	seen := map[*types.Var]bool{}
	var out []*types.Var
	ast.Inspect(lit.Body, func(n ast.Node) bool {
		if id, ok := n.(*ast.Ident); ok {
			if v, ok := info.Uses[id].(*types.Var); ok && !v.IsField() {
				if v.Pkg() != nil && v.Parent() != v.Pkg().Scope() && (v.Pos() < lit.Pos() || v.Pos() > lit.End()) && !seen[v] {
					seen[v] = true
					out = append(out, v)
				}
			}
		}
		return true
	})
	sort.Slice(out, func(i, j int) bool { return out[i].Pos() < out[j].Pos() })
	return out
}

// verifyLemma: requires ==> ensures, with optional proof steps; induction hypothesis on request.
func (w *World) verifyLemma(p pkgT, cs *ContractSet, lm *Lemma) (res *UnitResult) {
	res = &UnitResult{Key: pkgRel(p) + ".lemma:" + lm.Name, Pkg: pkgRel(p), Props: lm.Props, Kind: "lemma"}
	u := &Unit{c: newCtx(), pkg: p, cs: cs, defined: map[string]bool{}, world: w}
	u.c.emit("(declare-const time.zero Int)")
	x := &Exec{u: u, w: w, info: p.TypesInfo, fset: p.Fset, key: "lemma:" + lm.Name, fullKey: res.Key, names: map[string]int{}, curHidden: map[string]Term{}}
	defer func() {
		res.Obls = x.obls
		res.decls = u.c.decls
		for n := range u.c.notes {
			res.Notes = append(res.Notes, n)
		}
		sort.Strings(res.Notes)
		if r := recover(); r != nil {
			switch e := r.(type) {
			case unsupported:
				res.Err = e.msg
			case specErr:
				res.Err = "contract error: " + e.msg
			default:
				panic(r)
			}
		}
	}()
	if lm.Trusted {
		u.c.note("trusted lemma (not proved): " + lm.Name)
		return
	}
	u.ensureAxioms()
	st := &State{vars: map[types.Object]Term{}, ghost: map[string]Term{}, pc: tTrue}
	env := &Env{u: u, vars: map[string]Term{}}
	for _, prm := range lm.Params {
		s, gt := u.sortOfTypeStr(prm.Type)
		t := u.c.fresh(prm.Name, s)
		t.Go = gt
		if gt != nil && prm.Type != "int" {
			u.c.axiom(u.c.typeFacts(t, gt, 0))
		}
		env.vars[prm.Name] = t
		st.ghost[prm.Name] = t
	}
	for _, r := range lm.Requires {
		x.assume(st, env.eval(r.Expr))
	}
	x.cover(st, "cover", "requires", nil, "lemma hypotheses are satisfiable")
	if lm.Induct != "" {
		// induction hypothesis: the lemma holds for all parameter tuples whose measure is smaller (and >= 0)
		ih := &Env{u: u, vars: map[string]Term{}}
		var bs []string
		for _, prm := range lm.Params {
			s, _ := u.sortOfTypeStr(prm.Type)
			v := Term{S: "ih." + prm.Name, Sort: s}
			ih.vars[prm.Name] = v
			bs = append(bs, fmt.Sprintf("(%s %s)", v.S, s.Name))
		}
		me, err := parseSpecExpr(lm.Induct)
		if err != nil {
			panic(specErr{err.Error()})
		}
		m0 := env.eval(me)
		m1 := ih.eval(me)
		var reqs, enss []Term
		for _, r := range lm.Requires {
			reqs = append(reqs, ih.eval(r.Expr))
		}
		for _, e := range lm.Ensures {
			enss = append(enss, ih.eval(e.Expr))
		}
		hyp := tImp(tAnd(append(reqs, app(sortBool, "<=", tInt(0), m1), app(sortBool, "<", m1, m0))...), tAnd(enss...))
		x.assume(st, Term{S: fmt.Sprintf("(forall (%s) %s)", strings.Join(bs, " "), hyp.S), Sort: sortBool})
		x.assert(st, app(sortBool, ">=", m0, tInt(0)), "lemma", "measure-bounded", nil, "induction measure is non-negative: "+lm.Induct)
	}
	// proof steps
	for i, gs := range lm.Proof {
		switch gs.Kind {
		case "assert":
			x.assert(st, env.eval(gs.Expr), "lemma-step", fmt.Sprint(i), nil, gs.Raw)
		case "assume":
			u.c.note("assume in lemma " + lm.Name + ": " + gs.Raw)
			x.assume(st, env.eval(gs.Expr))
		case "use":
			x.useLemma(st, env, gs, "lemma "+lm.Name, nil)
		}
	}
	for i, e := range lm.Ensures {
		lbl := e.Label
		if lbl == "" {
			lbl = fmt.Sprint(i)
		}
		x.assert(st, env.eval(e.Expr), "lemma", lbl, nil, e.Raw)
	}
	return
}

// verifyImmutable: frame obligation "no function other than init assigns the package-level variable".
// Decided syntactically over the typed AST of the whole package (field-insensitive on the root identifier).
func (w *World) verifyImmutable(p pkgT, d ImmutableDecl) *UnitResult {
	res := &UnitResult{Key: pkgRel(p) + ".immutable:" + d.Name, Pkg: pkgRel(p), Props: d.Props, Kind: "frame"}
	if i := strings.Index(d.Name, "."); i > 0 {
		return w.verifyFieldWriters(p, d, res)
	}
	obj := p.Types.Scope().Lookup(d.Name)
	if obj == nil {
		res.Err = "package-level variable not found: " + d.Name
		return res
	}
	var offenders []string
	for _, f := range p.Syntax {
		for _, dcl := range f.Decls {
			fd, ok := dcl.(*ast.FuncDecl)
			if !ok || fd.Body == nil || (fd.Name.Name == "init" && fd.Recv == nil) {
				continue
			}
			ast.Inspect(fd.Body, func(n ast.Node) bool {
				check := func(e ast.Expr) {
					if rootObj(p.TypesInfo, e) == obj {
						offenders = append(offenders, fmt.Sprintf("%s at %s", fd.Name.Name, p.Fset.Position(e.Pos())))
					}
				}
				switch s := n.(type) {
				case *ast.AssignStmt:
					for _, l := range s.Lhs {
						check(l)
					}
				case *ast.IncDecStmt:
					check(s.X)
				case *ast.UnaryExpr:
					if s.Op.String() == "&" {
						check(s.X)
					}
				}
				return true
			})
		}
	}
	goal := tTrue
	txt := "no function other than init assigns or takes the address of " + d.Name
	if len(offenders) > 0 {
		goal = tFalse
		txt += "; offenders: " + strings.Join(offenders, ", ")
	}
	res.decls = []string{}
	res.Obls = []*Obligation{{Name: res.Key + "#frame:immutable", Kind: "frame", Func: res.Key, PC: tTrue, Goal: goal, Text: txt, syntactic: true}}
	return res
}

// verifyFieldPartition: every field of the struct is either compared (a difference forces a rebuild), refreshed on
// every cache hit, or determined by the map key. Decided over the typed AST (so a new field or a dropped comparison /
// refresh is noticed).
func (w *World) verifyFieldPartition(p pkgT, fp FieldPartition) *UnitResult {
	res := &UnitResult{Key: pkgRel(p) + ".fieldpartition:" + fp.Type, Pkg: pkgRel(p), Props: fp.Props, Kind: "frame", decls: []string{}}
	obj := p.Types.Scope().Lookup(fp.Type)
	if obj == nil {
		res.Err = "type not found: " + fp.Type
		return res
	}
	st, ok := obj.Type().Underlying().(*types.Struct)
	if !ok {
		res.Err = "not a struct: " + fp.Type
		return res
	}
	isT := func(e ast.Expr) bool {
		t := p.TypesInfo.TypeOf(e)
		if t == nil {
			return false
		}
		if pt, ok := t.Underlying().(*types.Pointer); ok {
			t = pt.Elem()
		}
		return types.Identical(t, obj.Type())
	}
	fieldsIn := func(n ast.Node) map[string]bool {
		out := map[string]bool{}
		ast.Inspect(n, func(m ast.Node) bool {
			if se, ok := m.(*ast.SelectorExpr); ok && isT(se.X) {
				out[se.Sel.Name] = true
			}
			return true
		})
		return out
	}
	returnsDifferent := func(b *ast.BlockStmt) bool {
		found := false
		ast.Inspect(b, func(m ast.Node) bool {
			if r, ok := m.(*ast.ReturnStmt); ok && len(r.Results) == 1 {
				if id, ok := r.Results[0].(*ast.Ident); ok && id.Name == "Different" {
					found = true
				}
			}
			return true
		})
		return found
	}
	compared := map[string]bool{}
	cfn := w.findFunc(p, fp.Compared)
	if cfn == nil || w.funcDecls[cfn] == nil {
		res.Err = "comparison function not found: " + fp.Compared
		return res
	}
	ast.Inspect(w.funcDecls[cfn].Body, func(m ast.Node) bool {
		if is, ok := m.(*ast.IfStmt); ok && returnsDifferent(is.Body) {
			for f := range fieldsIn(is.Cond) {
				compared[f] = true
			}
		}
		return true
	})
	keyed := map[string]bool{}
	for _, k := range fp.Keyed {
		keyed[k] = true
	}
	var required []string
	for i := 0; i < st.NumFields(); i++ {
		f := st.Field(i).Name()
		if strings.HasPrefix(f, "XXX_") || compared[f] || keyed[f] {
			continue
		}
		required = append(required, f)
	}
	sort.Strings(required)
	for _, rf := range fp.Refreshed {
		fn := w.findFunc(p, rf)
		goal, txt := tTrue, fmt.Sprintf("%s refreshes every field of %s that %s does not compare (and that is not keyed): %v", rf, fp.Type, fp.Compared, required)
		if fn == nil || w.funcDecls[fn] == nil {
			goal, txt = tFalse, "refresh function not found: "+rf
		} else {
			assigned := map[string]bool{}
			ast.Inspect(w.funcDecls[fn].Body, func(m ast.Node) bool {
				if as, ok := m.(*ast.AssignStmt); ok {
					for _, l := range as.Lhs {
						if se, ok := l.(*ast.SelectorExpr); ok && isT(se.X) {
							assigned[se.Sel.Name] = true
						}
					}
				}
				return true
			})
			var missing []string
			for _, f := range required {
				if !assigned[f] {
					missing = append(missing, f)
				}
			}
			if len(missing) > 0 {
				goal = tFalse
				txt += fmt.Sprintf("; NOT refreshed: %v (answers served from the cache would keep stale values of these fields)", missing)
			}
		}
		res.Obls = append(res.Obls, &Obligation{Name: res.Key + "#frame:refreshed-by:" + rf, Kind: "frame", Func: res.Key, PC: tTrue, Goal: goal, Text: txt, syntactic: true})
	}
	return res
}

// verifyFieldWriters: only the listed functions assign Type.field (syntactic frame over the whole package,
// function literals included).
func (w *World) verifyFieldWriters(p pkgT, d ImmutableDecl, res *UnitResult) *UnitResult {
	i := strings.Index(d.Name, ".")
	tn, fname := d.Name[:i], d.Name[i+1:]
	tobj := p.Types.Scope().Lookup(tn)
	if tobj == nil {
		res.Err = "type not found: " + tn
		return res
	}
	allowed := map[string]bool{}
	for _, f := range d.Only {
		allowed[f] = true
	}
	isT := func(e ast.Expr) bool {
		t := p.TypesInfo.TypeOf(e)
		if t == nil {
			return false
		}
		if pt, ok := t.Underlying().(*types.Pointer); ok {
			t = pt.Elem()
		}
		return types.Identical(t, tobj.Type())
	}
	var offenders []string
	for _, f := range p.Syntax {
		for _, dcl := range f.Decls {
			fd, ok := dcl.(*ast.FuncDecl)
			if !ok || fd.Body == nil {
				continue
			}
			key := fd.Name.Name
			if fn, ok := p.TypesInfo.Defs[fd.Name].(*types.Func); ok {
				key = funcKey(fn)
			}
			if allowed[key] || allowed[fd.Name.Name] {
				continue
			}
			ast.Inspect(fd.Body, func(n ast.Node) bool {
				check := func(e ast.Expr) {
					if se, ok := ast.Unparen(e).(*ast.SelectorExpr); ok && se.Sel.Name == fname && isT(se.X) {
						offenders = append(offenders, fmt.Sprintf("%s at %s", key, p.Fset.Position(e.Pos())))
					}
				}
				switch s := n.(type) {
				case *ast.AssignStmt:
					for _, l := range s.Lhs {
						check(l)
						// an element write x.f[k] = v into a map- or slice-valued field is a write of the field
						if ie, ok := ast.Unparen(l).(*ast.IndexExpr); ok {
							check(ie.X)
						}
					}
				case *ast.IncDecStmt:
					check(s.X)
				case *ast.UnaryExpr:
					if s.Op.String() == "&" {
						check(s.X)
					}
				case *ast.CompositeLit:
					// composite literals construct new values; they are not writes to an existing object
				}
				return true
			})
		}
	}
	goal := tTrue
	txt := fmt.Sprintf("only %v assign %s", d.Only, d.Name)
	if len(offenders) > 0 {
		goal = tFalse
		txt += "; offenders: " + strings.Join(offenders, ", ")
	}
	res.decls = []string{}
	res.Obls = []*Obligation{{Name: res.Key + "#frame:fieldwriters", Kind: "frame", Func: res.Key, PC: tTrue, Goal: goal, Text: txt, syntactic: true}}
	return res
}

// renameAliases maps names the ledger knows but the function no longer declares to names the function declares but the
// ledger does not know, pairing them in declaration order; only if the two lists have the same length and the paired
// variables have the same type (a pure rename). Anything else yields no alias (the contract then fails to bind, as before).
func renameAliases(ledger, cur [][2]string) map[string]string {
	if len(ledger) == 0 {
		return nil
	}
	curNames, ledNames := map[string]bool{}, map[string]bool{}
	for _, l := range cur {
		curNames[l[0]] = true
	}
	for _, l := range ledger {
		ledNames[l[0]] = true
	}
	var missing, fresh [][2]string
	seenM, seenF := map[string]bool{}, map[string]bool{}
	for _, l := range ledger {
		if !curNames[l[0]] && !seenM[l[0]] {
			seenM[l[0]] = true
			missing = append(missing, l)
		}
	}
	for _, l := range cur {
		if !ledNames[l[0]] && !seenF[l[0]] {
			seenF[l[0]] = true
			fresh = append(fresh, l)
		}
	}
	if len(missing) == 0 || len(missing) != len(fresh) {
		return nil
	}
	out := map[string]string{}
	for i := range missing {
		if missing[i][1] != fresh[i][1] {
			return nil
		}
		out[missing[i][0]] = fresh[i][0]
	}
	return out
}

// localsOf lists the variables declared in a function (receiver, parameters, results, body; literals included) in source order.
func localsOf(info *types.Info, scope ast.Node) [][2]string {
	var out [][2]string
	seen := map[types.Object]bool{}
	ast.Inspect(scope, func(n ast.Node) bool {
		if id, ok := n.(*ast.Ident); ok {
			if v, ok := info.Defs[id].(*types.Var); ok && !v.IsField() && id.Name != "_" && !seen[v] {
				seen[v] = true
				out = append(out, [2]string{id.Name, types.TypeString(v.Type(), func(*types.Package) string { return "" })})
			}
		}
		return true
	})
	return out
}
