package main

// Go statements: symbolic execution with state merging; loops cut by invariants.

import (
	"fmt"
	"go/ast"
	"go/constant"
	"go/printer"
	"go/token"
	"go/types"
	"io"
	"sort"
	"strings"
)

func printerFprint(w io.Writer, fset *token.FileSet, n any) error { return printer.Fprint(w, fset, n) }

func (x *Exec) block(st *State, stmts []ast.Stmt) *Flow {
	fl := newFlow(st)
	for _, s := range stmts {
		// forward goto: states that jumped to this label join the normal flow here
		if ls, ok := s.(*ast.LabeledStmt); ok {
			key := "goto:" + ls.Label.Name
			if js := fl.brk[key]; len(js) > 0 {
				fl.normal = x.merge(append([]*State{fl.normal}, js...))
				delete(fl.brk, key)
			}
		}
		if fl.normal == nil {
			continue
		}
		r := x.stmt(fl.normal, s)
		fl.normal = r.normal
		fl.absorb(r)
	}
	return fl
}

func (x *Exec) stmt(st *State, s ast.Stmt) *Flow {
	switch s := s.(type) {
	case *ast.BlockStmt:
		return x.block(st, s.List)
	case *rangeBind:
		s.fn(st)
		return newFlow(st)
	case *ast.ExprStmt:
		if call, ok := s.X.(*ast.CallExpr); ok {
			if x.isPanic(call) {
				x.assert(st, tFalse, "nopanic", "", call, "panic is unreachable: "+x.exprText(call))
				return &Flow{brk: map[string][]*State{}, cont: map[string][]*State{}}
			}
			x.call(st, call)
			return newFlow(st)
		}
		if u, ok := s.X.(*ast.UnaryExpr); ok && u.Op == token.ARROW {
			x.abstractNote(s, "channel receive statement (dropped)")
			return newFlow(st)
		}
		x.unsupported(s, "expression statement")
	case *ast.AssignStmt:
		x.assignStmt(st, s)
		return newFlow(st)
	case *ast.IncDecStmt:
		v := x.expr(st, s.X)
		op := token.ADD
		if s.Tok == token.DEC {
			op = token.SUB
		}
		r := x.arith(st, op, v, tInt(1), x.typeOf(s.X), x.typeOf(s.X), s)
		r.Go = x.typeOf(s.X)
		x.assign(st, s.X, r)
		return newFlow(st)
	case *ast.DeclStmt:
		gd := s.Decl.(*ast.GenDecl)
		if gd.Tok == token.VAR {
			for _, sp := range gd.Specs {
				vs := sp.(*ast.ValueSpec)
				if len(vs.Values) == 1 && len(vs.Names) > 1 {
					rs := x.multi(st, vs.Values[0])
					for i, n := range vs.Names {
						x.define(st, n, rs[i])
					}
					continue
				}
				for i, n := range vs.Names {
					obj := x.info.Defs[n]
					if obj == nil {
						continue
					}
					var v Term
					if i < len(vs.Values) {
						v = x.coerce(x.expr(st, vs.Values[i]), x.c().sortOf(obj.Type()))
					} else {
						v = x.c().zero(x.c().sortOf(obj.Type()), obj.Type())
					}
					v.Go = obj.Type()
					st.vars[obj] = v
				}
			}
		}
		return newFlow(st)
	case *ast.ReturnStmt:
		return x.returnStmt(st, s)
	case *ast.IfStmt:
		return x.ifStmt(st, s)
	case *ast.ForStmt:
		return x.forStmt(st, s, x.labels[s])
	case *ast.RangeStmt:
		return x.rangeStmt(st, s, x.labels[s])
	case *ast.SwitchStmt:
		return x.switchStmt(st, s, x.labels[s])
	case *ast.LabeledStmt:
		x.labels[s.Stmt] = s.Label.Name
		return x.stmt(st, s.Stmt)
	case *ast.BranchStmt:
		fl := &Flow{brk: map[string][]*State{}, cont: map[string][]*State{}}
		lbl := ""
		if s.Label != nil {
			lbl = s.Label.Name
		}
		switch s.Tok {
		case token.BREAK:
			fl.brk[lbl] = append(fl.brk[lbl], st)
		case token.CONTINUE:
			fl.cont[lbl] = append(fl.cont[lbl], st)
		case token.GOTO:
			// only forward jumps to a label later in an enclosing block are supported (joined in block())
			fl.brk["goto:"+lbl] = append(fl.brk["goto:"+lbl], st)
		default:
			x.unsupported(s, "branch %s", s.Tok)
		}
		return fl
	case *ast.DeferStmt:
		x.defers = append(x.defers, s)
		return newFlow(st)
	case *ast.EmptyStmt:
		return newFlow(st)
	case *ast.GoStmt:
		x.abstractNote(s, "go statement dropped (concurrency: abstracted); variables assigned by the started closure are havocked")
		if lit, ok := ast.Unparen(s.Call.Fun).(*ast.FuncLit); ok {
			// only what this goroutine's own body assigns (other function literals of the function are not started here)
			var objs []types.Object
			for o := range x.assignedInLit(lit) {
				if _, ok := st.vars[o]; ok {
					objs = append(objs, o)
				}
			}
			sort.Slice(objs, func(i, j int) bool { return objs[i].Pos() < objs[j].Pos() })
			for _, o := range objs {
				x.havocVar(st, o)
			}
		} else {
			x.havocClosureAssigned(st)
		}
		return newFlow(st)
	case *ast.SendStmt:
		v := x.expr(st, s.Value)
		x.abstractNote(s, "channel send dropped (concurrency: abstracted)")
		// the send itself is abstracted, but a contract may observe it: `at send@<channel expression>[#k]: ...` runs here, the
		// value sent is $a0 (k counts the send statements on that channel expression in source order)
		x.sendAnchor(st, s, v)
		return newFlow(st)
	case *ast.SelectStmt:
		return x.selectStmt(st, s, x.labels[s])
	case *ast.TypeSwitchStmt:
		x.unsupported(s, "type switch")
	}
	x.unsupported(s, "statement %T", s)
	return nil
}

func (x *Exec) isPanic(call *ast.CallExpr) bool {
	if id, ok := call.Fun.(*ast.Ident); ok {
		if b, ok := x.info.Uses[id].(*types.Builtin); ok && b.Name() == "panic" {
			return true
		}
	}
	return false
}

// closureAssignedBefore: variables assigned by function literals that can already exist at source position pos (created
// earlier in the source, or anywhere inside the outermost loop that is being executed).
func (x *Exec) closureAssignedBefore(pos token.Pos) map[types.Object]bool {
	if x.noClosureExpand {
		return map[types.Object]bool{}
	}
	if x.body == nil || !pos.IsValid() {
		return x.closureAssigned
	}
	limit := pos
	if len(x.loopNodes) > 0 {
		if e := x.loopNodes[0].End(); e > limit {
			limit = e
		}
	}
	out := map[types.Object]bool{}
	for _, l := range directLits(x.body) {
		if l.Pos() < limit {
			for o := range x.assignedInLitShallow(l) {
				out[o] = true
			}
		}
	}
	return out
}

// havocClosureAssigned havocs the variables assigned by function literals that may already exist and may be invoked by
// code we do not see (an escaped literal). A literal can only run after it has been created: literals that appear later in
// the source than the current point are ignored, unless the current point is inside a loop (an earlier iteration may have
// created them), in which case everything up to the end of the outermost enclosing loop counts.
func (x *Exec) havocClosureAssigned(st *State) {
	if !x.litEscapes {
		return
	}
	limit := x.curPos
	if len(x.loopNodes) > 0 {
		if e := x.loopNodes[0].End(); e > limit {
			limit = e
		}
	}
	assigned := x.closureAssigned
	if limit.IsValid() && x.body != nil {
		assigned = map[types.Object]bool{}
		for _, l := range directLits(x.body) {
			if l.Pos() < limit {
				for o := range x.assignedInLit(l) {
					assigned[o] = true
				}
			}
		}
	}
	var objs []types.Object
	for o := range assigned {
		if _, ok := st.vars[o]; ok {
			objs = append(objs, o)
		}
	}
	sort.Slice(objs, func(i, j int) bool { return objs[i].Pos() < objs[j].Pos() })
	for _, o := range objs {
		x.havocVar(st, o)
	}
}

// multi evaluates an expression that may yield several values.
func (x *Exec) multi(st *State, e ast.Expr) []Term {
	switch e := ast.Unparen(e).(type) {
	case *ast.CallExpr:
		return x.call(st, e)
	case *ast.IndexExpr:
		// v, ok := m[k]
		base := x.expr(st, e.X)
		if base.Sort.Kind == KMap {
			k := x.expr(st, e.Index)
			v := x.index(st, e)
			return []Term{v, x.c().mapHas(base, k)}
		}
	case *ast.TypeAssertExpr:
		v, ok := x.typeAssert(st, e)
		// a failed assertion yields the zero value
		return []Term{tIte(ok, v, x.c().zero(v.Sort, x.typeOf(e.Type))), ok}
	case *ast.UnaryExpr:
		if e.Op == token.ARROW {
			x.abstractNote(e, "channel receive (havocked)")
			tt := x.typeOf(e)
			if tup, ok := tt.(*types.Tuple); ok {
				return []Term{x.freshOf("recv", tup.At(0).Type()), x.c().fresh("ok", sortBool)}
			}
			return []Term{x.freshOf("recv", tt), x.c().fresh("ok", sortBool)}
		}
	}
	return []Term{x.expr(st, e)}
}

func (x *Exec) define(st *State, id *ast.Ident, v Term) {
	if id.Name == "_" {
		return
	}
	obj := x.info.Defs[id]
	if obj == nil {
		obj = x.info.Uses[id]
	}
	if obj == nil {
		x.unsupported(id, "no object for %s", id.Name)
	}
	v = x.coerce(v, x.c().sortOf(obj.Type()))
	v.Go = obj.Type()
	if _, isVar := obj.(*types.Var); isVar {
		if _, inState := st.vars[obj]; !inState {
			if vv := obj.(*types.Var); vv.Pkg() != nil && vv.Parent() == vv.Pkg().Scope() {
				x.c().note("package-level variable assigned in " + x.fullKey + ": " + id.Name + " (tracked in this function; other functions see an unconstrained constant unless a contract states an invariant)")
			}
		}
	}
	st.vars[obj] = x.c().define(id.Name, v)
}

func (x *Exec) assignStmt(st *State, s *ast.AssignStmt) {
	if s.Tok != token.ASSIGN && s.Tok != token.DEFINE {
		// op=
		ops := map[token.Token]token.Token{token.ADD_ASSIGN: token.ADD, token.SUB_ASSIGN: token.SUB, token.MUL_ASSIGN: token.MUL, token.QUO_ASSIGN: token.QUO, token.REM_ASSIGN: token.REM,
			token.AND_ASSIGN: token.AND, token.OR_ASSIGN: token.OR, token.XOR_ASSIGN: token.XOR, token.SHL_ASSIGN: token.SHL, token.SHR_ASSIGN: token.SHR, token.AND_NOT_ASSIGN: token.AND_NOT}
		op, ok := ops[s.Tok]
		if !ok {
			x.unsupported(s, "assignment operator %s", s.Tok)
		}
		a := x.expr(st, s.Lhs[0])
		b := x.expr(st, s.Rhs[0])
		var r Term
		if a.Sort.Kind == KStr && op == token.ADD {
			x.u.ensureStrCat()
			r = app(sortStr, "gs.cat", a, b)
		} else if a.Sort.Kind == KInt {
			r = x.arith(st, op, a, b, x.typeOf(s.Lhs[0]), x.typeOf(s.Lhs[0]), s)
		} else {
			x.abstractNote(s, "compound assignment on "+a.Sort.Name+" (havocked)")
			r = x.freshOf("arith", x.typeOf(s.Lhs[0]))
		}
		r.Go = x.typeOf(s.Lhs[0])
		x.assign(st, s.Lhs[0], r)
		return
	}
	var vals []Term
	if len(s.Rhs) == 1 && len(s.Lhs) > 1 {
		vals = x.multi(st, s.Rhs[0])
		if len(vals) != len(s.Lhs) {
			x.unsupported(s, "assignment count mismatch (%d vs %d)", len(vals), len(s.Lhs))
		}
	} else {
		for _, r := range s.Rhs {
			vals = append(vals, x.expr(st, r))
		}
	}
	// a local pointer read from a map of pointers keeps its provenance (writes through it update the map entry)
	if len(s.Rhs) == 1 && len(s.Lhs) >= 1 {
		if id, ok := s.Lhs[0].(*ast.Ident); ok && id.Name != "_" {
			if obj := x.objOf(id); obj != nil {
				delete(st.prov, obj)
				if ie, ok := ast.Unparen(s.Rhs[0]).(*ast.IndexExpr); ok {
					if mt, ok := types.Unalias(x.typeOf(ie.X)).Underlying().(*types.Map); ok {
						if _, isPtr := types.Unalias(mt.Elem()).Underlying().(*types.Pointer); isPtr && x.isLvalue(ie.X) {
							if st.prov == nil {
								st.prov = map[types.Object]provInfo{}
							}
							st.prov[obj] = provInfo{mapExpr: ie.X, key: x.expr(st, ie.Index)}
						}
					}
				}
			}
		}
	}
	for i, l := range s.Lhs {
		if id, ok := l.(*ast.Ident); ok && len(s.Rhs) == len(s.Lhs) {
			if lit, ok := ast.Unparen(s.Rhs[i]).(*ast.FuncLit); ok {
				if obj := x.objOf(id); obj != nil {
					if x.closures == nil {
						x.closures = map[types.Object]*ast.FuncLit{}
					}
					x.closures[obj] = lit
				}
			}
		}
		if s.Tok == token.DEFINE {
			if id, ok := l.(*ast.Ident); ok {
				x.define(st, id, vals[i])
				continue
			}
		}
		x.assign(st, l, vals[i])
	}
}

// assign stores a value through an lvalue expression (value semantics; see DESIGN 3.3-3.5).
func (x *Exec) assign(st *State, lhs ast.Expr, v Term) {
	c := x.c()
	switch l := ast.Unparen(lhs).(type) {
	case *ast.Ident:
		if l.Name == "_" {
			return
		}
		x.define(st, l, v)
	case *ast.SelectorExpr:
		sel := x.info.Selections[l]
		if sel == nil || sel.Kind() != types.FieldVal {
			if id, ok := l.X.(*ast.Ident); ok {
				if _, isPkg := x.info.Uses[id].(*types.PkgName); isPkg {
					x.abstractNote(l, "assignment to package-level variable (ignored)")
					return
				}
			}
			x.unsupported(l, "assignment to non-field selector")
		}
		if len(sel.Index()) != 1 {
			x.unsupported(l, "assignment through embedded field path")
		}
		base := x.expr(st, l.X)
		fname := l.Sel.Name
		if base.Sort.Kind == KPtr {
			x.assert(st, tNot(c.ptrIsNil(base)), "nilderef", x.exprText(l.X), l, "non-nil "+x.exprText(l.X))
			inner := c.ptrVal(base)
			f := inner.Sort.field(fname)
			if f == nil {
				x.unsupported(l, "no field %s", fname)
			}
			nv := c.updField(inner, fname, x.coerce(v, f.Sort))
			np := c.define("upd", c.mkPtr(base.Sort, c.ptrRef(base), nv))
			x.assign(st, l.X, np)
			if id, ok := ast.Unparen(l.X).(*ast.Ident); ok {
				if pi, ok := st.prov[x.objOf(id)]; ok {
					// the pointer came from a map of pointers: the pointee is shared with the map entry
					m := x.expr(st, pi.mapExpr)
					if m.Sort.Kind == KMap {
						saved := st.prov
						st.prov = nil
						x.assign(st, pi.mapExpr, x.mapStore(m, pi.key, np))
						st.prov = saved
					}
				}
			}
			return
		}
		if base.Sort.Kind != KStruct {
			x.unsupported(l, "field assignment on %s", base.Sort.Name)
		}
		f := base.Sort.field(fname)
		if f == nil {
			x.unsupported(l, "no field %s", fname)
		}
		x.assign(st, l.X, c.define("upd", c.updField(base, fname, x.coerce(v, f.Sort))))
	case *ast.IndexExpr:
		base := x.expr(st, l.X)
		if base.Sort.Kind == KPtr {
			x.unsupported(l, "index assignment through pointer")
		}
		switch base.Sort.Kind {
		case KSlice:
			i := x.expr(st, l.Index)
			x.assert(st, tAnd(app(sortBool, "<=", tInt(0), i), app(sortBool, "<", i, c.slLen(base))), "idx", x.exprText(l), l, "index in range: "+x.exprText(l))
			ns := c.mkSlice(base.Sort, c.slLen(base), app(c.arrSort(sortInt, base.Sort.Elem), "store", c.slArr(base), i, x.coerce(v, base.Sort.Elem)))
			x.assign(st, l.X, c.define("upd", ns))
		case KMap:
			k := x.expr(st, l.Index)
			if x.modelWrite == 0 {
				x.assert(st, tNot(c.mapNil(base)), "nilmap", x.exprText(l.X), l, "write to non-nil map "+x.exprText(l.X))
			}
			x.assign(st, l.X, x.mapStore(base, k, x.coerce(v, base.Sort.Elem)))
		default:
			x.unsupported(l, "index assignment on %s", base.Sort.Name)
		}
	case *ast.StarExpr:
		p := x.expr(st, l.X)
		if p.Sort.Kind != KPtr {
			x.unsupported(l, "store through %s", p.Sort.Name)
		}
		x.assert(st, tNot(c.ptrIsNil(p)), "nilderef", x.exprText(l.X), l, "non-nil "+x.exprText(l.X))
		x.assign(st, l.X, c.mkPtr(p.Sort, c.ptrRef(p), x.coerce(v, p.Sort.Elem)))
	default:
		x.unsupported(lhs, "assignment target %T", lhs)
	}
}

func (x *Exec) returnStmt(st *State, s *ast.ReturnStmt) *Flow {
	fl := &Flow{brk: map[string][]*State{}, cont: map[string][]*State{}}
	var vals []Term
	switch {
	case len(s.Results) == 0:
		for _, r := range x.results {
			vals = append(vals, st.vars[r])
		}
	case len(s.Results) == 1 && x.sig != nil && x.sig.Results().Len() > 1:
		vals = x.multi(st, s.Results[0])
	default:
		for i, r := range s.Results {
			v := x.expr(st, r)
			if x.sig != nil && i < x.sig.Results().Len() {
				rt := x.sig.Results().At(i).Type()
				v = x.coerce(v, x.c().sortOf(rt))
				v.Go = rt
			}
			vals = append(vals, v)
		}
	}
	// named results take the returned values (visible to deferred closures and ensures)
	for i, r := range x.results {
		if i < len(vals) {
			st.vars[r] = vals[i]
		}
	}
	st.ret = vals
	fl.rets = append(fl.rets, st)
	return fl
}

func (x *Exec) ifStmt(st *State, s *ast.IfStmt) *Flow {
	if s.Init != nil {
		r := x.stmt(st, s.Init)
		st = r.normal
	}
	cond := x.expr(st, s.Cond)
	cond = x.c().define("cond", cond)
	thenSt := st.clone()
	x.assume(thenSt, cond)
	elseSt := st.clone()
	x.assume(elseSt, tNot(cond))
	out := &Flow{brk: map[string][]*State{}, cont: map[string][]*State{}}
	tf := x.block(thenSt, s.Body.List)
	out.absorb(tf)
	var ef *Flow
	if s.Else != nil {
		ef = x.stmt(elseSt, s.Else)
		out.absorb(ef)
	} else {
		ef = newFlow(elseSt)
	}
	out.normal = x.merge([]*State{tf.normal, ef.normal})
	return out
}

func (x *Exec) switchStmt(st *State, s *ast.SwitchStmt, label string) *Flow {
	if s.Init != nil {
		st = x.stmt(st, s.Init).normal
	}
	var tag Term
	hasTag := s.Tag != nil
	if hasTag {
		tag = x.expr(st, s.Tag)
	}
	out := &Flow{brk: map[string][]*State{}, cont: map[string][]*State{}}
	var ends []*State
	rest := st
	var defaultClause *ast.CaseClause
	for _, cl := range s.Body.List {
		cc := cl.(*ast.CaseClause)
		if cc.List == nil {
			defaultClause = cc
			continue
		}
		var conds []Term
		for _, e := range cc.List {
			if hasTag {
				v := x.expr(rest, e)
				conds = append(conds, tEq(tag, v))
			} else {
				conds = append(conds, x.expr(rest, e))
			}
		}
		cond := x.c().define("case", tOr(conds...))
		taken := rest.clone()
		x.assume(taken, cond)
		nrest := rest.clone()
		x.assume(nrest, tNot(cond))
		rest = nrest
		for _, b := range cc.Body {
			if bs, ok := b.(*ast.BranchStmt); ok && bs.Tok == token.FALLTHROUGH {
				x.unsupported(bs, "fallthrough")
			}
		}
		f := x.block(taken, cc.Body)
		ends = append(ends, f.normal)
		x.absorbSwitch(out, f, label, &ends)
	}
	if defaultClause != nil {
		f := x.block(rest, defaultClause.Body)
		ends = append(ends, f.normal)
		x.absorbSwitch(out, f, label, &ends)
	} else {
		ends = append(ends, rest)
	}
	out.normal = x.merge(ends)
	return out
}

// absorbSwitch: an unlabeled break (or one naming the switch) leaves the switch.
func (x *Exec) absorbSwitch(out *Flow, f *Flow, label string, ends *[]*State) {
	for k, v := range f.brk {
		if k == "" || (label != "" && k == label) {
			*ends = append(*ends, v...)
		} else {
			out.brk[k] = append(out.brk[k], v...)
		}
	}
	for k, v := range f.cont {
		out.cont[k] = append(out.cont[k], v...)
	}
	out.rets = append(out.rets, f.rets...)
}

func (x *Exec) selectStmt(st *State, s *ast.SelectStmt, label string) *Flow {
	// nondeterministic choice among the communication clauses; received values havocked
	x.abstractNote(s, "select: nondeterministic choice, received values havocked (concurrency: abstracted)")
	out := &Flow{brk: map[string][]*State{}, cont: map[string][]*State{}}
	var ends []*State
	n := len(s.Body.List)
	choice := x.c().fresh("select", sortInt)
	for i, cl := range s.Body.List {
		cc := cl.(*ast.CommClause)
		br := st.clone()
		if i < n-1 {
			x.assume(br, tEq(choice, tInt(int64(i))))
		} else {
			x.assume(br, app(sortBool, ">=", choice, tInt(int64(i))))
		}
		if cc.Comm != nil {
			switch cm := cc.Comm.(type) {
			case *ast.AssignStmt:
				vals := x.multi(br, cm.Rhs[0])
				for j, l := range cm.Lhs {
					if j < len(vals) {
						if id, ok := l.(*ast.Ident); ok && cm.Tok == token.DEFINE {
							x.define(br, id, vals[j])
						} else {
							x.assign(br, l, vals[j])
						}
					}
				}
			case *ast.ExprStmt, *ast.SendStmt:
			}
		}
		f := x.block(br, cc.Body)
		ends = append(ends, f.normal)
		x.absorbSwitch(out, f, label, &ends)
	}
	out.normal = x.merge(ends)
	return out
}

// ---- loops ---------------------------------------------------------------

// assignedIn collects the variables (declared outside) that a loop body may modify.
func (x *Exec) assignedIn(nodes ...ast.Node) map[types.Object]bool {
	out := map[types.Object]bool{}
	var root func(e ast.Expr) types.Object
	root = func(e ast.Expr) types.Object {
		switch e := ast.Unparen(e).(type) {
		case *ast.Ident:
			if o := x.info.Uses[e]; o != nil {
				return o
			}
			return x.info.Defs[e]
		case *ast.SelectorExpr:
			return root(e.X)
		case *ast.IndexExpr:
			return root(e.X)
		case *ast.StarExpr:
			return root(e.X)
		case *ast.SliceExpr:
			return root(e.X)
		case *ast.UnaryExpr:
			if e.Op == token.AND {
				return root(e.X)
			}
		}
		return nil
	}
	add := func(e ast.Expr) {
		if o := root(e); o != nil {
			if _, ok := o.(*types.Var); ok {
				out[o] = true
			}
		}
	}
	for _, n := range nodes {
		if n == nil {
			continue
		}
		ast.Inspect(n, func(n ast.Node) bool {
			switch s := n.(type) {
			case *ast.AssignStmt:
				for _, l := range s.Lhs {
					add(l)
				}
			case *ast.IncDecStmt:
				add(s.X)
			case *ast.RangeStmt:
				if s.Tok == token.ASSIGN {
					if s.Key != nil {
						add(s.Key)
					}
					if s.Value != nil {
						add(s.Value)
					}
				}
			case *ast.CallExpr:
				unknown := x.callMayModify(s, add)
				if unknown {
					for o := range x.closureAssignedBefore(s.End()) {
						out[o] = true
					}
				}
			case *ast.GoStmt:
				for o := range x.closureAssignedBefore(s.Pos()) {
					out[o] = true
				}
			case *ast.FuncLit:
				return false
			}
			return true
		})
	}
	return out
}

func (x *Exec) forStmt(st *State, s *ast.ForStmt, label string) *Flow {
	ord := x.loopOrd[s]
	if s.Init != nil {
		st = x.stmt(st, s.Init).normal
	}
	hidden := map[string]string{}
	if as, ok := s.Init.(*ast.AssignStmt); ok && as.Tok == token.DEFINE && len(as.Lhs) > 0 {
		if id, ok := as.Lhs[0].(*ast.Ident); ok {
			hidden["$i"] = "var:" + id.Name
		}
	}
	mod := x.assignedIn(s.Body, s.Post, s.Cond)
	return x.loop(st, s, ord, label, mod, hidden,
		func(st *State) Term {
			if s.Cond == nil {
				return tTrue
			}
			return x.expr(st, s.Cond)
		},
		func(st *State) {},
		s.Body,
		func(st *State) *State {
			if s.Post != nil {
				return x.stmt(st, s.Post).normal
			}
			return st
		})
}

// loop is the generic invariant-cut loop rule.
func (x *Exec) loop(st *State, node ast.Stmt, ord int, label string, mod map[types.Object]bool, hidden map[string]string,
	cond func(*State) Term, pre func(*State), body *ast.BlockStmt, post func(*State) *State) *Flow {
	var spec *LoopSpec
	if x.ct != nil {
		spec = x.ct.Loops[ord]
	}
	if spec == nil {
		spec = &LoopSpec{}
	}
	savedHidden := x.curHidden
	x.curHidden = map[string]Term{}
	for k, v := range savedHidden {
		x.curHidden[k] = v
	}
	for k, v := range hidden {
		x.curHidden[k] = Term{S: v}
		x.curHidden[fmt.Sprintf("%s%d", k, ord)] = Term{S: v} // $coll0, $k0, ...: visible from inner loops
	}
	defer func() { x.curHidden = savedHidden }()

	evalInv := func(st *State, cl Clause) (t Term) {
		// variables declared inside the loop body are out of scope at the loop head: an invariant that names `p` means
		// the loop variable, not a body-local that shadows it
		savedFrom, savedTo := x.hideFrom, x.hideTo
		var realBody *ast.BlockStmt
		switch n := node.(type) {
		case *ast.ForStmt:
			realBody = n.Body
		case *ast.RangeStmt:
			realBody = n.Body
		}
		if realBody != nil && realBody.Lbrace.IsValid() {
			x.hideFrom, x.hideTo = realBody.Lbrace, realBody.End()
		}
		defer func() { x.hideFrom, x.hideTo = savedFrom, savedTo }()
		env := x.specEnv(st)
		// An invariant that names a local variable the function no longer has (the loop body was rewritten) is a failed
		// obligation of its own, "#anchor:loop<k>:<label>", and is then left out: the remaining invariants and the
		// postconditions are still checked against the new body.
		lost := ""
		func() {
			defer func() {
				if r := recover(); r != nil {
					if se, ok := r.(specErr); ok && strings.Contains(se.msg, "unknown identifier") {
						lost = se.msg
						return
					}
					panic(r)
				}
			}()
			t = x.safeSpecRaw(env, cl.Expr)
		}()
		if lost != "" {
			if x.lostInvs == nil {
				x.lostInvs = map[string]bool{}
			}
			key := fmt.Sprintf("%d:%s", ord, cl.Raw)
			if !x.lostInvs[key] {
				x.lostInvs[key] = true
				idx := len(x.lostInvs) - 1
				name := fmt.Sprintf("%s#anchor:loop%d:inv%d", x.fullKey, ord, idx)
				if cl.Label != "" {
					name = fmt.Sprintf("%s#anchor:loop%d:%s", x.fullKey, ord, cl.Label)
				}
				x.obls = append(x.obls, &Obligation{Name: name, Kind: "anchor", Func: x.fullKey, PC: tTrue, Goal: tFalse, syntactic: true,
					Pos: x.posOf(node), Text: fmt.Sprintf("loop %d invariant cannot be read against the current body (%s; anchor lost): %s", ord, lost, cl.Raw)})
			}
			return tTrue
		}
		return t
	}
	lbl := func(i int, cl Clause) string {
		if cl.Label != "" {
			return fmt.Sprintf("loop%d:%s", ord, cl.Label)
		}
		return fmt.Sprintf("loop%d:%d", ord, i)
	}
	// 1. invariants hold on entry
	x.runGhost(st, spec.Init, fmt.Sprintf("loop%d-init", ord), node)
	for i, cl := range spec.Invariants {
		x.assert(st, evalInv(st, cl), "inv-init", lbl(i, cl), node, cl.Raw)
	}
	// 2. havoc everything the loop may modify
	var objs []types.Object
	for o := range mod {
		if _, ok := st.vars[o]; ok {
			objs = append(objs, o)
		}
	}
	sort.Slice(objs, func(i, j int) bool { return objs[i].Pos() < objs[j].Pos() })
	head := st.clone()
	whole := x.wholeAssignedIn(node)
	for _, o := range objs {
		old, had := head.vars[o]
		x.havocVar(head, o)
		if had && old.Sort.Kind == KMap && !whole[o] {
			// only element writes / deletes inside the loop: nil-ness of the map cannot change
			x.c().axiom(tEq(x.c().mapNil(head.vars[o]), x.c().mapNil(old)))
		}
	}
	ghostMod := map[string]bool{}
	for _, gs := range append(append([]GhostStmt{}, spec.Head...), spec.End...) {
		if gs.Kind == "assign" {
			ghostMod[gs.Name] = true
		}
	}
	for _, k := range []string{"$i", "$visited", "$k"} {
		if v := hidden[k]; len(v) > 6 && v[:6] == "ghost:" {
			ghostMod[v[6:]] = true
		}
	}
	var gnames []string
	for g := range ghostMod {
		gnames = append(gnames, g)
	}
	sort.Strings(gnames)
	for _, g := range gnames {
		if old, ok := head.ghost[g]; ok {
			head.ghost[g] = x.c().fresh(g, old.Sort)
		}
	}
	// 3. assume invariants
	for _, cl := range spec.Invariants {
		x.assume(head, evalInv(head, cl))
	}
	pre(head)
	x.cover(head, "cover", fmt.Sprintf("loop%d-head", ord), node, "loop head reachable under its invariants")
	var decBefore Term
	c := cond(head)
	c = x.c().define("loopcond", c)
	// exit path
	exit := head.clone()
	x.assume(exit, tNot(c))
	// body path
	bst := head.clone()
	x.assume(bst, c)
	if spec.Decreases != nil {
		decBefore = x.safeSpec(x.specEnv(bst), spec.Decreases, "decreases")
		x.assert(bst, app(sortBool, ">=", decBefore, tInt(0)), "dec-bound", fmt.Sprintf("loop%d", ord), node, "variant bounded below: "+spec.Decreases.Raw)
	}
	x.runGhost(bst, spec.Head, fmt.Sprintf("loop%d-head", ord), node)
	x.loopCur = append(x.loopCur, ord)
	x.loopNodes = append(x.loopNodes, node)
	bf := x.block(bst, body.List)
	x.loopCur = x.loopCur[:len(x.loopCur)-1]
	x.loopNodes = x.loopNodes[:len(x.loopNodes)-1]
	out := &Flow{brk: map[string][]*State{}, cont: map[string][]*State{}}
	out.rets = append(out.rets, bf.rets...)
	exits := []*State{exit}
	conts := []*State{bf.normal}
	for k, v := range bf.brk {
		if k == "" || (label != "" && k == label) {
			exits = append(exits, v...)
		} else {
			out.brk[k] = append(out.brk[k], v...)
		}
	}
	for k, v := range bf.cont {
		if k == "" || (label != "" && k == label) {
			conts = append(conts, v...)
		} else {
			out.cont[k] = append(out.cont[k], v...)
		}
	}
	if back := x.merge(conts); back != nil {
		back = post(back)
		if back != nil {
			x.runGhost(back, spec.End, fmt.Sprintf("loop%d-end", ord), node)
			for i, cl := range spec.Invariants {
				x.assert(back, evalInv(back, cl), "inv-keep", lbl(i, cl), node, cl.Raw)
			}
			if spec.Decreases != nil {
				decAfter := x.safeSpec(x.specEnv(back), spec.Decreases, "decreases")
				x.assert(back, app(sortBool, "<", decAfter, decBefore), "dec", fmt.Sprintf("loop%d", ord), node, "variant decreases: "+spec.Decreases.Raw)
			}
		}
	}
	out.normal = x.merge(exits)
	return out
}

func (x *Exec) rangeStmt(st *State, s *ast.RangeStmt, label string) *Flow {
	c := x.c()
	ord := x.loopOrd[s]
	var coll Term
	if tv, ok := x.info.Types[s.X]; ok && tv.Value != nil && tv.Value.Kind() == constant.String {
		// range over a constant ASCII string: the runes are its bytes
		str := constant.StringVal(tv.Value)
		for i := 0; i < len(str); i++ {
			if str[i] >= 0x80 {
				x.unsupported(s, "range over non-ASCII constant string")
			}
		}
		ss := c.sliceSort(sortInt)
		arr := c.fresh("strbytes", c.arrSort(sortInt, sortInt))
		for i := 0; i < len(str); i++ {
			arr = app(arr.Sort, "store", arr, tInt(int64(i)), tInt(int64(str[i])))
		}
		coll = c.define("strrunes", c.mkSlice(ss, tInt(int64(len(str))), arr))
	} else {
		coll = x.expr(st, s.X)
	}
	coll = x.autoDerefQuiet(coll)
	mod := x.assignedIn(s.Body)
	gi := fmt.Sprintf("$i%d", ord)
	setKV := func(st *State, k, v Term, kt, vt types.Type) {
		if s.Key != nil {
			if id, ok := s.Key.(*ast.Ident); ok && s.Tok == token.DEFINE {
				k.Go = kt
				x.define(st, id, k)
			} else if s.Tok == token.ASSIGN {
				x.assign(st, s.Key, k)
			}
		}
		if s.Value != nil {
			if vt != nil && v.Sort != nil && (v.Sort.Kind == KInt || v.Sort.Kind == KSlice || v.Sort.Kind == KMap || v.Sort.Kind == KStruct) {
				// the element read by the range clause is a well-typed value of the element type (integer range etc.)
				x.assume(st, c.typeFactsQ(v, vt, 1, 0))
			}
			if id, ok := s.Value.(*ast.Ident); ok && s.Tok == token.DEFINE {
				v.Go = vt
				x.define(st, id, v)
			} else if s.Tok == token.ASSIGN {
				x.assign(st, s.Value, v)
			}
		}
	}
	switch coll.Sort.Kind {
	case KSlice, KInt, KStr:
		var n Term
		var et types.Type
		switch coll.Sort.Kind {
		case KSlice:
			n = c.slLen(coll)
			switch u := types.Unalias(x.typeOf(s.X)).Underlying().(type) {
			case *types.Slice:
				et = u.Elem()
			case *types.Array:
				et = u.Elem()
			case *types.Pointer:
				if a, ok := u.Elem().Underlying().(*types.Array); ok {
					et = a.Elem()
				}
			case *types.Basic:
				et = types.Typ[types.Int32] // runes of a constant string
			}
		case KInt:
			n = coll
		case KStr:
			// range over a string iterates runes. Abstraction (sound over-approximation of UTF-8 decoding): the loop index is
			// the byte offset; a byte below 0x80 is its own rune of width 1; at any other byte the rune is some code point
			// >= 0x80 (possibly U+FFFD) of width 1..4 that does not run past the end of the string.
			n = app(sortInt, "gs.len", coll)
			et = types.Typ[types.Int32]
			x.abstractNote(s, "range over string: runes at non-ASCII bytes are abstracted (any code point >= 0x80, width 1..4)")
		}
		st.ghost[gi] = tInt(0)
		st.ghost[gi+".coll"] = coll
		hidden := map[string]string{"$i": "ghost:" + gi, "$coll": "ghost:" + gi + ".coll"}
		return x.loop(st, s, ord, label, mod, hidden,
			func(st *State) Term { return app(sortBool, "<", st.ghost[gi], n) },
			func(st *State) {
				// implicit invariant 0 <= $i <= n
				x.assume(st, tAnd(app(sortBool, "<=", tInt(0), st.ghost[gi]), app(sortBool, "<=", st.ghost[gi], n)))
			},
			&ast.BlockStmt{List: append([]ast.Stmt{&rangeBind{fn: func(st *State) {
				i := st.ghost[gi]
				var v Term
				if coll.Sort.Kind == KSlice {
					v = c.slAt(coll, i)
				}
				if coll.Sort.Kind == KStr {
					b := app(sortInt, "gs.at", coll, i)
					v = c.fresh("rune", sortInt)
					w := c.fresh("runew", sortInt)
					ascii := app(sortBool, "<", b, tInt(128))
					x.assume(st, tAnd(
						tImp(ascii, tAnd(tEq(v, b), tEq(w, tInt(1)))),
						tImp(tNot(ascii), tAnd(app(sortBool, "<=", tInt(128), v), app(sortBool, "<=", v, tInt(0x10FFFF)), app(sortBool, "<=", tInt(1), w), app(sortBool, "<=", w, tInt(4)))),
						app(sortBool, "<=", app(sortInt, "+", i, w), n)))
					st.ghost[gi+".w"] = w
				}
				kt := types.Type(types.Typ[types.Int])
				if coll.Sort.Kind == KInt {
					kt = x.typeOf(s.X)
				}
				setKV(st, i, v, kt, et)
			}}}, s.Body.List...)},
			func(st *State) *State {
				step := tInt(1)
				if w, ok := st.ghost[gi+".w"]; ok && coll.Sort.Kind == KStr {
					step = w
				}
				st.ghost[gi] = app(sortInt, "+", st.ghost[gi], step)
				return st
			})
	case KMap:
		mt, _ := types.Unalias(x.typeOf(s.X)).Underlying().(*types.Map)
		gv := fmt.Sprintf("$visited%d", ord)
		gk := fmt.Sprintf("$k%d", ord)
		setS := c.setSort(coll.Sort.Key)
		st.ghost[gv] = Term{S: fmt.Sprintf("((as const %s) false)", setS.Name), Sort: setS}
		st.ghost[gi] = tInt(0)
		st.ghost[gi+".coll"] = coll
		hidden := map[string]string{"$visited": "ghost:" + gv, "$i": "ghost:" + gi, "$coll": "ghost:" + gi + ".coll", "$k": "ghost:" + gk}
		st.ghost[gk] = c.zero(coll.Sort.Key, nil)
		// Deleting from the ranged map inside the loop is outside the subset.
		if root := rootObj(x.info, s.X); root != nil && mod[root] {
			x.abstractNote(s, "ranged map is modified inside the loop: iteration follows the entry snapshot (Go: deleted, not yet visited keys are skipped)")
		}
		return x.loop(st, s, ord, label, mod, hidden,
			func(st *State) Term { return app(sortBool, "<", st.ghost[gi], c.mapCard(coll)) },
			func(st *State) {
				vis := st.ghost[gv]
				k := Term{S: "k!v", Sort: coll.Sort.Key}
				sub := Term{S: fmt.Sprintf("(forall ((k!v %s)) (=> (select %s k!v) (select %s k!v)))", coll.Sort.Key.Name, vis.S, c.mapDom(coll).S), Sort: sortBool}
				_ = k
				x.assume(st, tAnd(sub, app(sortBool, "<=", tInt(0), st.ghost[gi]), app(sortBool, "<=", st.ghost[gi], c.mapCard(coll))))
				// $i == card(coll) exactly when every key has been visited (cardinality of the visited set; trusted finite-set fact)
				all := Term{S: fmt.Sprintf("(forall ((k!v %s)) (=> (select %s k!v) (select %s k!v)))", coll.Sort.Key.Name, c.mapDom(coll).S, vis.S), Sort: sortBool}
				x.assume(st, tEq(tEq(st.ghost[gi], c.mapCard(coll)), all))
			},
			&ast.BlockStmt{List: append([]ast.Stmt{&rangeBind{fn: func(st *State) {
				k := c.fresh("rk", coll.Sort.Key)
				var kt, vt types.Type
				if mt != nil {
					kt, vt = mt.Key(), mt.Elem()
					c.axiom(c.typeFacts(k, kt, 0))
				}
				x.assume(st, tAnd(c.mapHas(coll, k), tNot(app(sortBool, "select", st.ghost[gv], k))))
				st.ghost[gk] = k
				st.ghost[gv] = app(setS, "store", st.ghost[gv], k, tTrue)
				setKV(st, k, c.mapVal(coll, k), kt, vt)
			}}}, s.Body.List...)},
			func(st *State) *State {
				st.ghost[gi] = app(sortInt, "+", st.ghost[gi], tInt(1))
				return st
			})
	}
	if coll.Sort.Kind == KOpaque {
		// range over channel / function iterator: body executed an unknown number of times with havocked values
		x.abstractNote(s, "range over "+coll.Sort.Name+": havocked iteration values")
		hidden := map[string]string{}
		more := func(st *State) Term { return c.fresh("more", sortBool) }
		return x.loop(st, s, ord, label, mod, hidden, more, func(*State) {},
			&ast.BlockStmt{List: append([]ast.Stmt{&rangeBind{fn: func(st *State) {
				var kt types.Type
				if s.Key != nil {
					kt = x.typeOf(s.Key)
					setKV(st, x.freshOf("rv", kt), Term{}, kt, nil)
				}
			}}}, s.Body.List...)},
			func(st *State) *State { return st })
	}
	x.unsupported(s, "range over %s", coll.Sort.Name)
	return nil
}

func rootObj(info *types.Info, e ast.Expr) types.Object {
	switch e := ast.Unparen(e).(type) {
	case *ast.Ident:
		return info.Uses[e]
	case *ast.SelectorExpr:
		return rootObj(info, e.X)
	case *ast.IndexExpr:
		return rootObj(info, e.X)
	case *ast.StarExpr:
		return rootObj(info, e.X)
	}
	return nil
}

func (x *Exec) autoDerefQuiet(t Term) Term {
	if t.Sort.Kind == KPtr && t.Sort.Elem.Kind == KSlice {
		return x.c().ptrVal(t)
	}
	return t
}

// rangeBind is a pseudo statement that binds the iteration variables of a range loop.
type rangeBind struct {
	ast.EmptyStmt
	fn func(*State)
}

func (x *Exec) objOf(id *ast.Ident) types.Object {
	if o := x.info.Defs[id]; o != nil {
		return o
	}
	return x.info.Uses[id]
}

// inlineClosure executes the body of a local function literal at its call site
// (local helper closures are not API functions; they are verified in place).
func (x *Exec) inlineClosure(st *State, call *ast.CallExpr, lit *ast.FuncLit) []Term {
	if x.inlineDepth > 3 {
		x.unsupported(call, "closure inlining too deep (recursive closure?)")
	}
	sig, _ := x.typeOf(lit).(*types.Signature)
	var args []Term
	for _, a := range call.Args {
		args = append(args, x.expr(st, a))
	}
	i := 0
	var bound []types.Object
	for _, f := range lit.Type.Params.List {
		for _, nm := range f.Names {
			if obj := x.info.Defs[nm]; obj != nil && i < len(args) {
				v := x.coerce(args[i], x.c().sortOf(obj.Type()))
				v.Go = obj.Type()
				st.vars[obj] = v
				bound = append(bound, obj)
			}
			i++
		}
	}
	savedSig, savedRes, savedDefers := x.sig, x.results, x.defers
	x.sig = sig
	x.results = nil
	if lit.Type.Results != nil {
		for _, f := range lit.Type.Results.List {
			for _, nm := range f.Names {
				if v, ok := x.info.Defs[nm].(*types.Var); ok {
					x.results = append(x.results, v)
					st.vars[v] = x.c().zero(x.c().sortOf(v.Type()), v.Type())
				}
			}
		}
	}
	x.defers = nil
	x.inlineDepth++
	work := st.clone()
	fl := x.block(work, lit.Body.List)
	x.inlineDepth--
	if len(x.defers) > 0 {
		x.unsupported(call, "defer inside inlined closure")
	}
	ends := fl.rets
	if fl.normal != nil {
		var vals []Term
		for _, r := range x.results {
			vals = append(vals, fl.normal.vars[r])
		}
		fl.normal.ret = vals
		ends = append(ends, fl.normal)
	}
	x.sig, x.results, x.defers = savedSig, savedRes, savedDefers
	m := x.merge(ends)
	if m == nil {
		st.pc = tFalse
		return nil
	}
	st.vars, st.ghost, st.pc = m.vars, m.ghost, m.pc
	for _, o := range bound {
		delete(st.vars, o)
	}
	rets := m.ret
	st.ret = nil
	if sig != nil && len(rets) != sig.Results().Len() {
		x.unsupported(call, "inlined closure result count mismatch")
	}
	return rets
}

// wholeAssignedIn: variables assigned as a whole (x = ..., x := ...) inside a loop, as opposed to element/field writes.
func (x *Exec) wholeAssignedIn(n ast.Node) map[types.Object]bool {
	out := map[types.Object]bool{}
	ast.Inspect(n, func(m ast.Node) bool {
		switch s := m.(type) {
		case *ast.AssignStmt:
			for _, l := range s.Lhs {
				if id, ok := ast.Unparen(l).(*ast.Ident); ok {
					if o := x.objOf(id); o != nil {
						out[o] = true
					}
				}
			}
		case *ast.CallExpr:
			// passing &x or a method with pointer receiver may replace the value
			for _, a := range s.Args {
				if u, ok := ast.Unparen(a).(*ast.UnaryExpr); ok && u.Op == token.AND {
					if id, ok := ast.Unparen(u.X).(*ast.Ident); ok {
						if o := x.objOf(id); o != nil {
							out[o] = true
						}
					}
				}
			}
		case *ast.FuncLit:
			return false
		}
		return true
	})
	return out
}

func (x *Exec) sendAnchor(st *State, s *ast.SendStmt, v Term) {
	q := x.exprText(s.Chan)
	for oldName, nw := range x.aliases {
		if q == nw {
			q = oldName
		} else if strings.HasPrefix(q, nw+".") {
			q = oldName + q[len(nw):]
		}
	}
	if x.anchorsHit == nil {
		x.anchorsHit = map[string]bool{}
	}
	if x.sendOrd == nil {
		x.sendOrd = map[*ast.SendStmt]int{}
		x.sendCnt = map[string]int{}
	}
	ord, seen := x.sendOrd[s]
	if !seen {
		ord = x.sendCnt[q]
		x.sendCnt[q]++
		x.sendOrd[s] = ord
	}
	qn := fmt.Sprintf("%s#%d", q, ord)
	x.anchorsHit["send@"+q] = true
	x.anchorsHit["send@"+qn] = true
	if len(x.ct.CallGhost["send@"+q])+len(x.ct.CallGhost["send@"+qn]) == 0 {
		return
	}
	st.ghost["$a0"] = v
	x.runGhost(st, x.ct.CallGhost["send@"+q], "send@"+q, s)
	x.runGhost(st, x.ct.CallGhost["send@"+qn], "send@"+qn, s)
	delete(st.ghost, "$a0")
}
