package main

// Parser for the contract language kept in //@ comment lines of
// /repo/<pkg>/zz_verif_contracts_*.go (build tag verif, comment-only files).

import (
	"fmt"
	"os"
	"path/filepath"
	"regexp"
	"sort"
	"strconv"
	"strings"
)

// ---- spec expressions ----------------------------------------------------

type Binder struct {
	Name string
	Type string
}

type SX struct {
	Op      string // num str char bool ident bin un call index slice field forall exists old ite nil
	Name    string // operator / identifier / field name
	Args    []*SX
	Binders []Binder
	Raw     string
}

func (s *SX) String() string { return s.Raw }

type tok struct {
	k string // id num str char op eof
	v string
	p int
}

type lexer struct {
	src  string
	toks []tok
	pos  int
}

var ops = []string{"<==>", "==>", "::", ":=", "==", "!=", "<=", ">=", "&&", "||", "<<", ">>", "(", ")", "[", "]", "{", "}", ",", ":", ".", "?", "<", ">", "+", "-", "*", "/", "%", "!", "=", "&", "|", "^"}

func lex(src string) ([]tok, error) {
	var out []tok
	i := 0
	for i < len(src) {
		ch := src[i]
		switch {
		case ch == ' ' || ch == '\t' || ch == '\n':
			i++
		case ch >= '0' && ch <= '9':
			j := i
			for j < len(src) && (src[j] >= '0' && src[j] <= '9' || src[j] == '_' || src[j] == 'x' || (src[j] >= 'a' && src[j] <= 'f') || (src[j] >= 'A' && src[j] <= 'F')) {
				j++
			}
			out = append(out, tok{"num", strings.ReplaceAll(src[i:j], "_", ""), i})
			i = j
		case ch == '_' || ch == '$' || (ch >= 'a' && ch <= 'z') || (ch >= 'A' && ch <= 'Z'):
			j := i
			for j < len(src) && (src[j] == '_' || src[j] == '$' || (src[j] >= 'a' && src[j] <= 'z') || (src[j] >= 'A' && src[j] <= 'Z') || (src[j] >= '0' && src[j] <= '9')) {
				j++
			}
			out = append(out, tok{"id", src[i:j], i})
			i = j
		case ch == '"':
			j := i + 1
			for j < len(src) && src[j] != '"' {
				if src[j] == '\\' {
					j++
				}
				j++
			}
			if j >= len(src) {
				return nil, fmt.Errorf("unterminated string at %d", i)
			}
			s, err := strconv.Unquote(src[i : j+1])
			if err != nil {
				return nil, err
			}
			out = append(out, tok{"str", s, i})
			i = j + 1
		case ch == '\'':
			j := i + 1
			for j < len(src) && src[j] != '\'' {
				if src[j] == '\\' {
					j++
				}
				j++
			}
			r, _, _, err := strconv.UnquoteChar(src[i+1:j], '\'')
			if err != nil {
				return nil, err
			}
			out = append(out, tok{"num", strconv.Itoa(int(r)), i})
			i = j + 1
		default:
			matched := false
			for _, o := range ops {
				if strings.HasPrefix(src[i:], o) {
					out = append(out, tok{"op", o, i})
					i += len(o)
					matched = true
					break
				}
			}
			if !matched {
				return nil, fmt.Errorf("unexpected character %q at %d in %q", ch, i, src)
			}
		}
	}
	out = append(out, tok{"eof", "", len(src)})
	return out, nil
}

type sparser struct {
	src  string
	toks []tok
	i    int
}

func parseSpecExpr(src string) (*SX, error) {
	toks, err := lex(src)
	if err != nil {
		return nil, err
	}
	p := &sparser{src: src, toks: toks}
	var e *SX
	func() {
		defer func() {
			if r := recover(); r != nil {
				if pe, ok := r.(parseErr); ok {
					err = fmt.Errorf("%s in %q", string(pe), src)
					return
				}
				panic(r)
			}
		}()
		e = p.expr()
		if p.peek().k != "eof" {
			p.fail("trailing input at " + p.peek().v)
		}
	}()
	if e != nil {
		e.Raw = src
	}
	return e, err
}

type parseErr string

func (p *sparser) fail(msg string) { panic(parseErr(msg)) }
func (p *sparser) peek() tok      { return p.toks[p.i] }
func (p *sparser) next() tok      { t := p.toks[p.i]; p.i++; return t }
func (p *sparser) isOp(v string) bool {
	t := p.peek()
	return t.k == "op" && t.v == v
}
func (p *sparser) accept(v string) bool {
	if p.isOp(v) {
		p.i++
		return true
	}
	return false
}
func (p *sparser) expect(v string) {
	if !p.accept(v) {
		p.fail(fmt.Sprintf("expected %q, found %q", v, p.peek().v))
	}
}

func (p *sparser) expr() *SX {
	t := p.peek()
	if t.k == "id" && (t.v == "forall" || t.v == "exists" || t.v == "setof") {
		p.next()
		// binders up to '::'
		start := p.peek().p
		depth := 0
		for {
			tk := p.peek()
			if tk.k == "eof" {
				p.fail("missing :: in quantifier")
			}
			if tk.k == "op" && (tk.v == "(" || tk.v == "[") {
				depth++
			}
			if tk.k == "op" && (tk.v == ")" || tk.v == "]") {
				depth--
			}
			if tk.k == "op" && tk.v == "::" && depth == 0 {
				break
			}
			p.next()
		}
		btxt := p.src[start:p.peek().p]
		p.expect("::")
		body := p.expr()
		bs, err := parseBinders(btxt)
		if err != nil {
			p.fail(err.Error())
		}
		return &SX{Op: t.v, Binders: bs, Args: []*SX{body}}
	}
	return p.iff()
}

// parseBinders parses "i, j int, s string".
func parseBinders(txt string) ([]Binder, error) {
	var out []Binder
	parts := splitTop(txt, ',')
	var pending []string
	for _, part := range parts {
		part = strings.TrimSpace(part)
		if part == "" {
			continue
		}
		sp := strings.IndexAny(part, " \t")
		if sp < 0 {
			pending = append(pending, part)
			continue
		}
		name := part[:sp]
		typ := strings.TrimSpace(part[sp:])
		pending = append(pending, name)
		for _, n := range pending {
			out = append(out, Binder{n, typ})
		}
		pending = nil
	}
	if len(pending) > 0 {
		return nil, fmt.Errorf("binder without type: %v", pending)
	}
	return out, nil
}

func splitTop(s string, sep byte) []string {
	var out []string
	depth := 0
	last := 0
	for i := 0; i < len(s); i++ {
		switch s[i] {
		case '(', '[', '{':
			depth++
		case ')', ']', '}':
			depth--
		default:
			if s[i] == sep && depth == 0 {
				out = append(out, s[last:i])
				last = i + 1
			}
		}
	}
	out = append(out, s[last:])
	return out
}

func (p *sparser) iff() *SX {
	l := p.implies()
	for p.accept("<==>") {
		r := p.implies()
		l = &SX{Op: "bin", Name: "<==>", Args: []*SX{l, r}}
	}
	return l
}

func (p *sparser) implies() *SX {
	l := p.ternary()
	if p.accept("==>") {
		var r *SX
		t := p.peek()
		if t.k == "id" && (t.v == "forall" || t.v == "exists") {
			r = p.expr()
		} else {
			r = p.implies()
		}
		_ = t
		return &SX{Op: "bin", Name: "==>", Args: []*SX{l, r}}
	}
	return l
}

func (p *sparser) ternary() *SX {
	c := p.or()
	if p.accept("?") {
		a := p.ternary()
		p.expect(":")
		b := p.ternary()
		return &SX{Op: "ite", Args: []*SX{c, a, b}}
	}
	return c
}

func (p *sparser) or() *SX {
	l := p.and()
	for p.accept("||") {
		r := p.and()
		l = &SX{Op: "bin", Name: "||", Args: []*SX{l, r}}
	}
	return l
}

func (p *sparser) and() *SX {
	l := p.cmp()
	for p.accept("&&") {
		var r *SX
		t := p.peek()
		if t.k == "id" && (t.v == "forall" || t.v == "exists") {
			r = p.expr()
		} else {
			r = p.cmp()
		}
		l = &SX{Op: "bin", Name: "&&", Args: []*SX{l, r}}
	}
	return l
}

func (p *sparser) cmp() *SX {
	l := p.add()
	for {
		t := p.peek()
		if t.k == "op" && (t.v == "==" || t.v == "!=" || t.v == "<" || t.v == "<=" || t.v == ">" || t.v == ">=") {
			p.next()
			r := p.add()
			l = &SX{Op: "bin", Name: t.v, Args: []*SX{l, r}}
			continue
		}
		if t.k == "id" && t.v == "in" {
			p.next()
			r := p.add()
			l = &SX{Op: "call", Name: "in", Args: []*SX{l, r}}
			continue
		}
		return l
	}
}

func (p *sparser) add() *SX {
	l := p.mul()
	for {
		t := p.peek()
		if t.k == "op" && (t.v == "+" || t.v == "-") {
			p.next()
			r := p.mul()
			l = &SX{Op: "bin", Name: t.v, Args: []*SX{l, r}}
			continue
		}
		return l
	}
}

func (p *sparser) mul() *SX {
	l := p.unary()
	for {
		t := p.peek()
		if t.k == "op" && (t.v == "*" || t.v == "/" || t.v == "%") {
			p.next()
			r := p.unary()
			l = &SX{Op: "bin", Name: t.v, Args: []*SX{l, r}}
			continue
		}
		return l
	}
}

func (p *sparser) unary() *SX {
	if p.accept("!") {
		return &SX{Op: "un", Name: "!", Args: []*SX{p.unary()}}
	}
	if p.accept("-") {
		return &SX{Op: "un", Name: "-", Args: []*SX{p.unary()}}
	}
	return p.postfix()
}

func (p *sparser) postfix() *SX {
	e := p.primary()
	for {
		switch {
		case p.accept("."):
			t := p.next()
			if t.k != "id" {
				p.fail("expected field name")
			}
			e = &SX{Op: "field", Name: t.v, Args: []*SX{e}}
		case p.accept("["):
			if p.accept(":") {
				hi := p.expr()
				p.expect("]")
				e = &SX{Op: "slice", Args: []*SX{e, nil, hi}}
				continue
			}
			idx := p.expr()
			if p.accept(":") {
				if p.accept("]") {
					e = &SX{Op: "slice", Args: []*SX{e, idx, nil}}
					continue
				}
				hi := p.expr()
				p.expect("]")
				e = &SX{Op: "slice", Args: []*SX{e, idx, hi}}
				continue
			}
			p.expect("]")
			e = &SX{Op: "index", Args: []*SX{e, idx}}
		case p.isOp("("):
			p.next()
			var args []*SX
			if !p.accept(")") {
				for {
					args = append(args, p.expr())
					if p.accept(")") {
						break
					}
					p.expect(",")
				}
			}
			// callee must be an identifier or pkg.ident / recv.method
			e = &SX{Op: "call", Name: calleeName(e), Args: append([]*SX{e}, args...)}
		default:
			return e
		}
	}
}

func calleeName(e *SX) string {
	switch e.Op {
	case "ident":
		return e.Name
	case "field":
		return calleeName(e.Args[0]) + "." + e.Name
	}
	return "?"
}

func (p *sparser) primary() *SX {
	t := p.next()
	switch t.k {
	case "num":
		return &SX{Op: "num", Name: t.v}
	case "str":
		return &SX{Op: "str", Name: t.v}
	case "id":
		switch t.v {
		case "true", "false":
			return &SX{Op: "bool", Name: t.v}
		case "nil":
			return &SX{Op: "nil"}
		case "old":
			if !p.isOp("(") {
				return &SX{Op: "ident", Name: "old"} // a Go variable that happens to be called old
			}
			p.expect("(")
			e := p.expr()
			p.expect(")")
			return &SX{Op: "old", Args: []*SX{e}}
		}
		return &SX{Op: "ident", Name: t.v}
	case "op":
		if t.v == "(" {
			e := p.expr()
			p.expect(")")
			return e
		}
	}
	p.fail(fmt.Sprintf("unexpected token %q", t.v))
	return nil
}

// ---- contract files --------------------------------------------------------

type Clause struct {
	Label string
	Expr  *SX
	Raw   string
}

type GhostStmt struct {
	Kind string // assert assume use assign
	Name string // ghost var / lemma
	Expr *SX
	Args []*SX
	Raw  string
	Label string
}

type LoopSpec struct {
	Invariants []Clause
	Decreases  *SX
	Head       []GhostStmt
	End        []GhostStmt
	Init       []GhostStmt
}

type GhostVar struct {
	Name string
	Type string
	Init *SX
}

type Param struct {
	Name string
	Type string
}

type Contract struct {
	Pkg      string
	Key      string // funcName | Recv.Method | Outer$N | pkg.Func (assumed externals)
	Props    []string
	Assumed  bool
	Pure     bool
	Requires []Clause
	Ensures  []Clause
	Loops    map[int]*LoopSpec
	Ghosts   []GhostVar
	Entry    []GhostStmt
	Exit     []GhostStmt
	CallGhost map[string][]GhostStmt // before@pkg.Func / after@pkg.Func
	NoCall   []string // qualified callees (as in call anchors) the function must not call: syntactic frame obligation
	NoWrite  []string // parameters / receiver whose reachable backing arrays must not be written in place (memory frame)
	Modifies []string // nil = default (pointer receiver and pointer params may change); ["nothing"]
	Options  map[string]string
	File     string
	Params   []string // optional explicit parameter names for assumed externals
}

type SpecFunc struct {
	Name    string
	Params  []Param
	Result  string
	Body    *SX
	IsAxiom bool
	Opaque  bool
	Macro   bool
	Raw     string
}

type Lemma struct {
	Name     string
	Params   []Param
	Props    []string
	Requires []Clause
	Ensures  []Clause
	Proof    []GhostStmt
	Induct   string
	Trusted  bool
}

type FieldPartition struct {
	Type      string
	Compared  string
	Refreshed []string
	Keyed     []string
	Props     []string
}

type ImmutableDecl struct {
	Name  string
	Props []string
	Only  []string // fieldwriters: functions allowed to assign Type.field (Name = "Type.field")
}

type Axiom struct {
	Name string
	Expr *SX
}

type ContractSet struct {
	Pkg       string
	Funcs     map[string]*Contract
	SpecFuncs map[string]*SpecFunc
	Lemmas    map[string]*Lemma
	Axioms    []Axiom
	Order     []string
	Guarded   map[string]string // Type.field -> mutex field
	Immutable []ImmutableDecl
	Partitions []FieldPartition
}

var clauseKW = map[string]bool{"func": true, "assume": true, "pure": true, "pred": true, "axiom": true, "lemma": true, "requires": true,
	"ensures": true, "loop": true, "property": true, "modifies": true, "nowrite": true, "nocall": true, "ghost": true, "option": true, "at": true, "proof": true, "trusted": true, "induction": true, "guarded": true, "end": true, "assert": true, "use": true, "opaque": true, "macro": true, "immutable": true, "fieldpartition": true, "fieldwriters": true}

var labelRe = regexp.MustCompile(`^([A-Za-z_][A-Za-z0-9_\-]*):\s+(.*)$`)

func splitLabel(s string) (string, string) {
	if m := labelRe.FindStringSubmatch(s); m != nil && !strings.HasPrefix(m[2], ":") {
		return m[1], m[2]
	}
	return "", s
}

func parseClause(s string) (Clause, error) {
	lbl, rest := splitLabel(strings.TrimSpace(s))
	e, err := parseSpecExpr(rest)
	if err != nil {
		return Clause{}, err
	}
	return Clause{Label: lbl, Expr: e, Raw: rest}, nil
}

func parseGhostStmt(s string) (GhostStmt, error) {
	s = strings.TrimSpace(s)
	switch {
	case strings.HasPrefix(s, "assert "):
		lbl, rest := splitLabel(strings.TrimSpace(s[7:]))
		e, err := parseSpecExpr(rest)
		return GhostStmt{Kind: "assert", Expr: e, Raw: s, Label: lbl}, err
	case strings.HasPrefix(s, "assume "):
		e, err := parseSpecExpr(s[7:])
		return GhostStmt{Kind: "assume", Expr: e, Raw: s}, err
	case strings.HasPrefix(s, "use "):
		e, err := parseSpecExpr(s[4:])
		if err != nil {
			return GhostStmt{}, err
		}
		if e.Op != "call" {
			return GhostStmt{}, fmt.Errorf("use expects a lemma call: %s", s)
		}
		return GhostStmt{Kind: "use", Name: e.Name, Args: e.Args[1:], Raw: s}, nil
	}
	if i := strings.Index(s, ":="); i > 0 {
		e, err := parseSpecExpr(s[i+2:])
		return GhostStmt{Kind: "assign", Name: strings.TrimSpace(s[:i]), Expr: e, Raw: s}, err
	}
	return GhostStmt{}, fmt.Errorf("unknown ghost statement %q", s)
}

// parseSig parses "name(a T, b U) R" or "name(a T, b U)".
func parseSig(s string) (name string, params []Param, result string, rest string, err error) {
	s = strings.TrimSpace(s)
	i := strings.Index(s, "(")
	if i < 0 {
		return "", nil, "", "", fmt.Errorf("missing ( in signature %q", s)
	}
	name = strings.TrimSpace(s[:i])
	depth := 0
	j := i
	for ; j < len(s); j++ {
		if s[j] == '(' {
			depth++
		}
		if s[j] == ')' {
			depth--
			if depth == 0 {
				break
			}
		}
	}
	if j >= len(s) {
		return "", nil, "", "", fmt.Errorf("unbalanced signature %q", s)
	}
	bs, err := parseBinders(s[i+1 : j])
	if err != nil {
		return "", nil, "", "", err
	}
	for _, b := range bs {
		params = append(params, Param{b.Name, b.Type})
	}
	rest = strings.TrimSpace(s[j+1:])
	if k := strings.Index(rest, "="); k >= 0 && !strings.HasPrefix(rest[k:], "==") {
		result = strings.TrimSpace(rest[:k])
		rest = strings.TrimSpace(rest[k+1:])
	} else {
		result = rest
		rest = ""
	}
	return
}

func loadContracts(dir, pkgName string) (*ContractSet, error) {
	cs := &ContractSet{Pkg: pkgName, Funcs: map[string]*Contract{}, SpecFuncs: map[string]*SpecFunc{}, Lemmas: map[string]*Lemma{}, Guarded: map[string]string{}}
	files, _ := filepath.Glob(filepath.Join(dir, "zz_verif_contracts*.go"))
	sort.Strings(files)
	for _, f := range files {
		data, err := os.ReadFile(f)
		if err != nil {
			return nil, err
		}
		if err := cs.parseFile(f, string(data)); err != nil {
			return nil, fmt.Errorf("%s: %w", f, err)
		}
	}
	return cs, nil
}

func (cs *ContractSet) parseFile(fname, data string) error {
	// collect logical clauses
	type lc struct {
		text string
		line int
	}
	var clauses []lc
	for ln, line := range strings.Split(data, "\n") {
		t := strings.TrimSpace(line)
		if !strings.HasPrefix(t, "//@") {
			continue
		}
		body := strings.TrimSpace(t[3:])
		if body == "" || strings.HasPrefix(body, "#") {
			continue
		}
		first := body
		if i := strings.IndexAny(body, " \t"); i > 0 {
			first = body[:i]
		}
		if clauseKW[first] || len(clauses) == 0 {
			clauses = append(clauses, lc{body, ln + 1})
		} else {
			clauses[len(clauses)-1].text += " " + body
		}
	}
	var cur *Contract
	var curLemma *Lemma
	inProof := false
	for _, c := range clauses {
		werr := func(err error) error { return fmt.Errorf("line %d: %v", c.line, err) }
		text := c.text
		first, rest := text, ""
		if i := strings.IndexAny(text, " \t"); i > 0 {
			first, rest = text[:i], strings.TrimSpace(text[i:])
		}
		switch first {
		case "assert", "use":
			if !(inProof && curLemma != nil) {
				return werr(fmt.Errorf("%s outside proof", first))
			}
			gs, err := parseGhostStmt(text)
			if err != nil {
				return werr(err)
			}
			curLemma.Proof = append(curLemma.Proof, gs)
		case "assume", "func":
			if first == "assume" && inProof && curLemma != nil && !strings.HasPrefix(rest, "func ") {
				gs, err := parseGhostStmt(text)
				if err != nil {
					return werr(err)
				}
				curLemma.Proof = append(curLemma.Proof, gs)
				continue
			}
			assumed := false
			if first == "assume" {
				if !strings.HasPrefix(rest, "func ") {
					return werr(fmt.Errorf("expected 'assume func'"))
				}
				rest = strings.TrimSpace(rest[5:])
				assumed = true
			}
			key := rest
			var params []string
			if i := strings.Index(rest, "("); i > 0 {
				key = strings.TrimSpace(rest[:i])
				for _, pn := range strings.Split(strings.Trim(rest[i:], "()"), ",") {
					if pn = strings.TrimSpace(pn); pn != "" {
						params = append(params, pn)
					}
				}
			}
			if _, dup := cs.Funcs[key]; dup {
				return werr(fmt.Errorf("duplicate contract for %s", key))
			}
			cur = &Contract{Pkg: cs.Pkg, Key: key, Assumed: assumed, Loops: map[int]*LoopSpec{}, Options: map[string]string{}, File: fname, Params: params}
			cs.Funcs[key] = cur
			cs.Order = append(cs.Order, key)
			curLemma = nil
			inProof = false
		case "pure", "pred", "opaque", "macro":
			opaque := false
			macro := first == "macro"
			if first == "opaque" || first == "macro" {
				opaque = first == "opaque"
				if strings.HasPrefix(rest, "pred ") {
					first, rest = "pred", strings.TrimSpace(rest[5:])
				} else if strings.HasPrefix(rest, "pure ") {
					first, rest = "pure", strings.TrimSpace(rest[5:])
				} else {
					return werr(fmt.Errorf("expected 'opaque pred' or 'opaque pure func'"))
				}
			}
			if first == "pure" {
				if rest == "" && cur != nil {
					cur.Pure = true
					continue
				}
				if !strings.HasPrefix(rest, "func ") {
					return werr(fmt.Errorf("expected 'pure func'"))
				}
				rest = strings.TrimSpace(rest[5:])
			}
			name, params, result, body, err := parseSig(rest)
			if err != nil {
				return werr(err)
			}
			if first == "pred" {
				result = "bool"
			}
			sf := &SpecFunc{Name: name, Params: params, Result: result, Raw: rest, Opaque: opaque, Macro: macro}
			if body != "" {
				e, err := parseSpecExpr(body)
				if err != nil {
					return werr(err)
				}
				sf.Body = e
			}
			cs.SpecFuncs[name] = sf
			cur, curLemma = nil, nil
		case "axiom":
			lbl, body := splitLabel(rest)
			e, err := parseSpecExpr(body)
			if err != nil {
				return werr(err)
			}
			cs.Axioms = append(cs.Axioms, Axiom{lbl, e})
			cur, curLemma = nil, nil
		case "lemma":
			name, params, _, _, err := parseSig(rest)
			if err != nil {
				return werr(err)
			}
			curLemma = &Lemma{Name: name, Params: params}
			cs.Lemmas[name] = curLemma
			cs.Order = append(cs.Order, "lemma:"+name)
			cur = nil
			inProof = false
		case "trusted":
			if curLemma != nil {
				curLemma.Trusted = true
			}
		case "induction":
			if curLemma != nil {
				curLemma.Induct = strings.TrimSpace(strings.TrimPrefix(rest, "on"))
			}
		case "property":
			ps := strings.Fields(strings.ReplaceAll(rest, ",", " "))
			if cur != nil {
				cur.Props = append(cur.Props, ps...)
			} else if curLemma != nil {
				curLemma.Props = append(curLemma.Props, ps...)
			}
		case "requires", "ensures":
			cl, err := parseClause(rest)
			if err != nil {
				return werr(err)
			}
			switch {
			case cur != nil && first == "requires":
				cur.Requires = append(cur.Requires, cl)
			case cur != nil:
				cur.Ensures = append(cur.Ensures, cl)
			case curLemma != nil && first == "requires":
				curLemma.Requires = append(curLemma.Requires, cl)
			case curLemma != nil:
				curLemma.Ensures = append(curLemma.Ensures, cl)
			default:
				return werr(fmt.Errorf("%s outside func/lemma", first))
			}
		case "proof":
			inProof = true
			if rest != "" {
				gs, err := parseGhostStmt(rest)
				if err != nil {
					return werr(err)
				}
				curLemma.Proof = append(curLemma.Proof, gs)
			}
		case "loop":
			if cur == nil {
				return werr(fmt.Errorf("loop outside func"))
			}
			fs := strings.SplitN(rest, " ", 3)
			if len(fs) < 3 {
				return werr(fmt.Errorf("malformed loop clause"))
			}
			n, err := strconv.Atoi(strings.TrimSuffix(fs[0], ":"))
			if err != nil {
				return werr(err)
			}
			ls := cur.Loops[n]
			if ls == nil {
				ls = &LoopSpec{}
				cur.Loops[n] = ls
			}
			switch fs[1] {
			case "invariant":
				cl, err := parseClause(fs[2])
				if err != nil {
					return werr(err)
				}
				ls.Invariants = append(ls.Invariants, cl)
			case "decreases":
				e, err := parseSpecExpr(fs[2])
				if err != nil {
					return werr(err)
				}
				ls.Decreases = e
			case "head", "end", "init":
				gs, err := parseGhostStmt(fs[2])
				if err != nil {
					return werr(err)
				}
				switch fs[1] {
				case "head":
					ls.Head = append(ls.Head, gs)
				case "end":
					ls.End = append(ls.End, gs)
				default:
					ls.Init = append(ls.Init, gs)
				}
			default:
				return werr(fmt.Errorf("unknown loop clause %q", fs[1]))
			}
		case "at":
			if cur == nil {
				return werr(fmt.Errorf("at outside func"))
			}
			fs := strings.SplitN(rest, " ", 2)
			if len(fs) < 2 {
				return werr(fmt.Errorf("malformed at clause"))
			}
			gs, err := parseGhostStmt(fs[1])
			if err != nil {
				return werr(err)
			}
			switch strings.TrimSuffix(fs[0], ":") {
			case "entry":
				cur.Entry = append(cur.Entry, gs)
			case "exit":
				cur.Exit = append(cur.Exit, gs)
			default:
				a := strings.TrimSuffix(fs[0], ":")
				if strings.HasPrefix(a, "before@") || strings.HasPrefix(a, "after@") || strings.HasPrefix(a, "send@") {
					if cur.CallGhost == nil {
						cur.CallGhost = map[string][]GhostStmt{}
					}
					cur.CallGhost[a] = append(cur.CallGhost[a], gs)
					break
				}
				return werr(fmt.Errorf("unknown anchor %q", fs[0]))
			}
		case "ghost":
			if cur == nil {
				return werr(fmt.Errorf("ghost outside func"))
			}
			// ghost var name type = expr
			r := strings.TrimPrefix(rest, "var ")
			eq := strings.Index(r, "=")
			if eq < 0 {
				return werr(fmt.Errorf("ghost var needs initialiser"))
			}
			hd := strings.Fields(strings.TrimSpace(r[:eq]))
			if len(hd) < 2 {
				return werr(fmt.Errorf("ghost var needs name and type"))
			}
			e, err := parseSpecExpr(r[eq+1:])
			if err != nil {
				return werr(err)
			}
			cur.Ghosts = append(cur.Ghosts, GhostVar{hd[0], strings.Join(hd[1:], " "), e})
		case "modifies":
			if cur == nil {
				return werr(fmt.Errorf("modifies outside func"))
			}
			for _, m := range strings.Split(rest, ",") {
				cur.Modifies = append(cur.Modifies, strings.TrimSpace(m))
			}
		case "nowrite":
			if cur == nil {
				return werr(fmt.Errorf("nowrite outside func"))
			}
			cur.NoWrite = append(cur.NoWrite, strings.Fields(strings.ReplaceAll(rest, ",", " "))...)
		case "nocall":
			// nocall pkg.Recv.Method ...: the function (nested literals included) contains no call of these callees
			if cur == nil {
				return werr(fmt.Errorf("nocall outside func"))
			}
			cur.NoCall = append(cur.NoCall, strings.Fields(strings.ReplaceAll(rest, ",", " "))...)
		case "option":
			if cur == nil {
				return werr(fmt.Errorf("option outside func"))
			}
			fs := strings.SplitN(rest, " ", 2)
			v := "true"
			if len(fs) == 2 {
				v = fs[1]
			}
			cur.Options[fs[0]] = v
		case "immutable":
			// immutable <global> property Cxx ...
			fs := strings.Fields(strings.ReplaceAll(rest, ",", " "))
			d := ImmutableDecl{Name: fs[0]}
			for _, f := range fs[1:] {
				if f != "property" {
					d.Props = append(d.Props, f)
				}
			}
			cs.Immutable = append(cs.Immutable, d)
			cs.Order = append(cs.Order, "immutable:"+d.Name)
			cur, curLemma = nil, nil
		case "fieldwriters":
			// fieldwriters Type.field only F G property Cxx
			fs := strings.Fields(rest)
			d := ImmutableDecl{Name: fs[0]}
			mode := ""
			for _, f := range fs[1:] {
				if f == "only" || f == "property" {
					mode = f
					continue
				}
				if mode == "only" {
					d.Only = append(d.Only, f)
				} else if mode == "property" {
					d.Props = append(d.Props, f)
				}
			}
			cs.Immutable = append(cs.Immutable, d)
			cs.Order = append(cs.Order, "immutable:"+d.Name)
			cur, curLemma = nil, nil
		case "fieldpartition":
			// fieldpartition T compared F refreshed G H keyed A B property Cxx
			fs := strings.Fields(rest)
			fp := FieldPartition{Type: fs[0]}
			mode := ""
			for _, f := range fs[1:] {
				switch f {
				case "compared", "refreshed", "keyed", "property":
					mode = f
					continue
				}
				switch mode {
				case "compared":
					fp.Compared = f
				case "refreshed":
					fp.Refreshed = append(fp.Refreshed, f)
				case "keyed":
					fp.Keyed = append(fp.Keyed, f)
				case "property":
					fp.Props = append(fp.Props, f)
				}
			}
			cs.Partitions = append(cs.Partitions, fp)
			cs.Order = append(cs.Order, "fieldpartition:"+fp.Type)
			cur, curLemma = nil, nil
		case "guarded":
			// guarded Type.field by mu
			fs := strings.Fields(rest)
			if len(fs) == 3 && fs[1] == "by" {
				cs.Guarded[fs[0]] = fs[2]
			}
		case "end":
			cur, curLemma, inProof = nil, nil, false
		default:
			if inProof && curLemma != nil {
				gs, err := parseGhostStmt(text)
				if err != nil {
					return werr(err)
				}
				curLemma.Proof = append(curLemma.Proof, gs)
				continue
			}
			return werr(fmt.Errorf("unknown clause %q", first))
		}
	}
	return nil
}
