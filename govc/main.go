package main

import (
	"flag"
	"fmt"
	"os"
	"sort"
	"strings"
	"time"
)

const verifDir = "/verif"

func main() {
	os.Setenv("PATH", "/opt/veriftools/go1.26.8/bin:"+os.Getenv("PATH")+":/usr/local/bin:/usr/bin")
	os.Setenv("GOFLAGS", "-mod=mod")
	os.Setenv("GOPROXY", "off")
	os.Setenv("GOSUMDB", "off")
	os.Setenv("GOTOOLCHAIN", "local")
	if len(os.Args) < 2 {
		fmt.Fprintln(os.Stderr, "usage: govc <verify|check|relock|selftest|replay> ...")
		os.Exit(2)
	}
	switch os.Args[1] {
	case "verify":
		cmdVerify(os.Args[2:])
	case "check":
		cmdCheck(os.Args[2:])
	case "relock":
		cmdRelock(os.Args[2:])
	default:
		fmt.Fprintln(os.Stderr, "unknown command", os.Args[1])
		os.Exit(2)
	}
}

// cmdVerify: developer command, verifies functions of one package and prints every obligation.
func cmdVerify(args []string) {
	fs := flag.NewFlagSet("verify", flag.ExitOnError)
	pkg := fs.String("pkg", "ring", "package directory relative to /repo")
	fn := fs.String("func", "", "comma separated contract keys (default: all)")
	secs := fs.Int("t", 10, "solver timeout (s)")
	verbose := fs.Bool("v", false, "print failing scripts location")
	keep := fs.String("keep", "", "directory to keep SMT files")
	fs.Parse(args)
	t0 := time.Now()
	w, err := loadWorld(strings.Split(*pkg, ","), verifDir)
	if err != nil {
		fmt.Fprintln(os.Stderr, "load:", err)
		os.Exit(2)
	}
	fmt.Printf("loaded in %.1fs\n", time.Since(t0).Seconds())
	want := map[string]bool{}
	for _, f := range strings.Split(*fn, ",") {
		if f != "" {
			want[f] = true
		}
	}
	var units []*UnitResult
	for _, rel := range strings.Split(*pkg, ",") {
		p := w.byName[rel]
		cs := w.contracts[p.PkgPath]
		for _, key := range cs.Order {
			if strings.HasPrefix(key, "lemma:") {
				name := strings.TrimPrefix(key, "lemma:")
				if len(want) > 0 && !want[key] && !want[name] {
					continue
				}
				units = append(units, w.verifyLemma(p, cs, cs.Lemmas[name]))
				continue
			}
			if strings.HasPrefix(key, "fieldpartition:") {
				for _, fp := range cs.Partitions {
					if fp.Type == strings.TrimPrefix(key, "fieldpartition:") && (len(want) == 0 || want[key]) {
						units = append(units, w.verifyFieldPartition(p, fp))
					}
				}
				continue
			}
			if strings.HasPrefix(key, "immutable:") {
				for _, d := range cs.Immutable {
					if d.Name == strings.TrimPrefix(key, "immutable:") && (len(want) == 0 || want[key]) {
						units = append(units, w.verifyImmutable(p, d))
					}
				}
				continue
			}
			ct := cs.Funcs[key]
			if ct.Assumed || (len(want) > 0 && !want[key]) {
				continue
			}
			units = append(units, w.verifyFunc(p, cs, ct))
		}
	}
	dir := *keep
	if dir == "" {
		dir, _ = os.MkdirTemp("", "govc-smt-")
		defer os.RemoveAll(dir)
	} else {
		os.MkdirAll(dir, 0o755)
	}
	t1 := time.Now()
	dischargeAll(units, dir, *secs, 6)
	fmt.Printf("solved in %.1fs\n", time.Since(t1).Seconds())
	bad := 0
	for _, u := range units {
		fmt.Printf("== %s (%s:%d) %d obligations\n", u.Key, u.File, u.Line, len(u.Obls))
		if u.Err != "" {
			fmt.Printf("   TRANSLATION ERROR: %s\n", u.Err)
			bad++
		}
		for _, o := range u.Obls {
			mark := "ok  "
			if o.Result != "discharged" {
				mark = "FAIL"
				bad++
			}
			fmt.Printf("   %s %-70s %-10s %-10s %5dms  %s\n", mark, o.Name, o.Result, o.Backend, o.Millis, o.Pos)
			if o.Result != "discharged" && *verbose {
				fmt.Printf("        goal: %s\n        %s\n", o.Text, strings.ReplaceAll(strings.TrimSpace(o.Output), "\n", "\n        "))
			}
		}
		if *verbose {
			for _, a := range u.Abstracted {
				fmt.Printf("   abstracted: %s\n", a)
			}
			sort.Strings(u.Notes)
			for _, n := range u.Notes {
				fmt.Printf("   note: %s\n", n)
			}
		}
	}
	if bad > 0 {
		os.Exit(1)
	}
}

