package main

// Calls: builtins, contracts (modular), dropped effect-free externals, havoc for the rest.

import (
	"fmt"
	"go/ast"
	"go/types"
	"sort"
	"strings"

	"golang.org/x/tools/go/types/typeutil"
)

func (x *Exec) safeSpec(env *Env, e *SX, what string) (t Term) {
	defer func() {
		if r := recover(); r != nil {
			if se, ok := r.(specErr); ok {
				panic(unsupported{fmt.Sprintf("%s: contract error in %s: %s", x.fullKey, what, se.msg)})
			}
			panic(r)
		}
	}()
	return env.eval(e)
}

// safeSpecRaw evaluates a contract expression and lets a specErr propagate (the caller decides what it means).
func (x *Exec) safeSpecRaw(env *Env, e *SX) Term { return env.eval(e) }

func (x *Exec) runGhost(st *State, stmts []GhostStmt, where string, n ast.Node) {
	for i, gs := range stmts {
		env := x.specEnv(st)
		switch gs.Kind {
		case "assert":
			id := fmt.Sprintf("%s:%d", where, i)
			if gs.Label != "" {
				id = where + ":" + gs.Label
			}
			x.assert(st, x.safeSpec(env, gs.Expr, where), "ghost-assert", id, n, gs.Raw)
		case "assume":
			x.c().note("assume in " + x.fullKey + " at " + where + ": " + gs.Raw)
			x.assume(st, x.safeSpec(env, gs.Expr, where))
		case "assign":
			v := x.safeSpec(env, gs.Expr, where)
			if _, ok := st.ghost[gs.Name]; !ok {
				panic(unsupported{fmt.Sprintf("%s: unknown ghost variable %s", x.fullKey, gs.Name)})
			}
			st.ghost[gs.Name] = x.c().define(gs.Name, v)
		case "use":
			x.useLemma(st, env, gs, where, n)
		}
	}
}

func (x *Exec) useLemma(st *State, env *Env, gs GhostStmt, where string, n ast.Node) {
	lm := x.u.cs.Lemmas[gs.Name]
	if lm == nil {
		panic(unsupported{fmt.Sprintf("%s: unknown lemma %s", x.fullKey, gs.Name)})
	}
	if len(lm.Params) != len(gs.Args) {
		panic(unsupported{fmt.Sprintf("%s: lemma %s expects %d arguments", x.fullKey, gs.Name, len(lm.Params))})
	}
	le := &Env{u: x.u, vars: map[string]Term{}}
	for i, p := range lm.Params {
		le.vars[p.Name] = x.safeSpec(env, gs.Args[i], where)
	}
	for i, r := range lm.Requires {
		x.assert(st, x.safeSpec(le, r.Expr, "lemma "+gs.Name), "pre@lemma:"+gs.Name, fmt.Sprintf("%s:%d", where, i), n, r.Raw)
	}
	for _, e := range lm.Ensures {
		x.assume(st, x.safeSpec(le, e.Expr, "lemma "+gs.Name))
	}
}

var droppedPkgs = map[string]bool{
	"github.com/go-kit/log":                                true,
	"github.com/go-kit/log/level":                          true,
	"github.com/prometheus/client_golang/prometheus":       true,
	"github.com/prometheus/client_golang/prometheus/promauto": true,
	"github.com/grafana/dskit/spanlogger":                  true,
	"github.com/opentracing/opentracing-go":                true,
	"github.com/opentracing/opentracing-go/log":            true,
	"go.opentelemetry.io/otel/trace":                       true,
	"go.opentelemetry.io/otel/attribute":                   true,
}

// callee resolves the static callee of a call, if any.
func (x *Exec) callee(call *ast.CallExpr) *types.Func {
	if fn, ok := typeutil.Callee(x.info, call).(*types.Func); ok {
		return fn
	}
	return nil
}

// callMayModify reports (via add) the lvalue roots a call may modify; returns true for calls whose effect is unknown.
func (x *Exec) callMayModify(call *ast.CallExpr, add func(ast.Expr)) bool {
	if tv, ok := x.info.Types[call.Fun]; ok && tv.IsType() {
		return false
	}
	if id, ok := ast.Unparen(call.Fun).(*ast.Ident); ok {
		if _, isB := x.info.Uses[id].(*types.Builtin); isB {
			if id.Name == "delete" || id.Name == "copy" || id.Name == "clear" {
				add(call.Args[0])
			}
			return false
		}
	}
	if se, ok := ast.Unparen(call.Fun).(*ast.SelectorExpr); ok {
		if _, isB := x.info.Uses[se.Sel].(*types.Builtin); isB {
			return false
		}
	}
	fn := x.callee(call)
	if fn == nil {
		return true // call through a function value
	}
	if fn.Pkg() != nil && droppedPkgs[fn.Pkg().Path()] {
		return false
	}
	ct, _, _ := x.w.contractFor(x.u.pkg, fn)
	if ct != nil && (ct.Pure || (len(ct.Modifies) == 1 && ct.Modifies[0] == "nothing")) {
		return false
	}
	sig := fn.Type().(*types.Signature)
	if sel, ok := ast.Unparen(call.Fun).(*ast.SelectorExpr); ok && sig.Recv() != nil {
		if isRefType(sig.Recv().Type()) {
			add(sel.X)
		}
	}
	unknown := false
	for i, a := range call.Args {
		var pt types.Type
		if i < sig.Params().Len() {
			pt = sig.Params().At(i).Type()
		} else if sig.Variadic() {
			pt = sig.Params().At(sig.Params().Len() - 1).Type()
		}
		if pt != nil && isRefType(pt) {
			add(a)
		}
		if _, isSig := x.typeOf(a).Underlying().(*types.Signature); isSig && ct == nil {
			unknown = true
		}
		if _, isLit := ast.Unparen(a).(*ast.FuncLit); isLit {
			unknown = true
		}
	}
	return unknown
}

func isRefType(t types.Type) bool {
	switch types.Unalias(t).Underlying().(type) {
	case *types.Pointer, *types.Map:
		return true
	}
	return false
}

func (x *Exec) call(st *State, call *ast.CallExpr) []Term {
	if x.ct == nil || len(x.ct.CallGhost) == 0 {
		return x.callInner(st, call)
	}
	q := ""
	if fn := x.callee(call); fn != nil {
		q = funcKey(fn)
		if fn.Pkg() != nil {
			q = fn.Pkg().Name() + "." + q
		}
	} else {
		q = x.exprText(call.Fun) // calls through function values are anchored by their source text
		for oldName, nw := range x.aliases {
			// a renamed function-valued local keeps the anchor the contract was written with
			if q == nw {
				q = oldName
			} else if strings.HasPrefix(q, nw+".") {
				q = oldName + q[len(nw):]
			}
		}
	}
	if x.anchorsHit == nil {
		x.anchorsHit = map[string]bool{}
	}
	x.anchorsHit["before@"+q] = true
	x.anchorsHit["after@"+q] = true
	// a call site can also be addressed individually: before@q#0 is the first call of q in the function (in the order
	// the symbolic execution meets the call sites, which is source order)
	if x.anchorOrd == nil {
		x.anchorOrd = map[*ast.CallExpr]int{}
		x.anchorCnt = map[string]int{}
	}
	ord, seen := x.anchorOrd[call]
	if !seen {
		ord = x.anchorCnt[q]
		x.anchorCnt[q]++
		x.anchorOrd[call] = ord
	}
	qn := fmt.Sprintf("%s#%d", q, ord)
	x.anchorsHit["before@"+qn] = true
	x.anchorsHit["after@"+qn] = true
	// ghost statements anchored at a call may name its arguments as $a0, $a1, ... (evaluated before the call; the
	// receiver of a method call is not counted)
	wantArgs := false
	for _, k := range []string{"before@" + q, "after@" + q, "before@" + qn, "after@" + qn} {
		for _, gs := range x.ct.CallGhost[k] {
			if strings.Contains(gs.Raw, "$a") {
				wantArgs = true
			}
		}
	}
	if wantArgs {
		for i, a := range call.Args {
			st.ghost[fmt.Sprintf("$a%d", i)] = x.expr(st, a)
		}
	}
	x.runGhost(st, x.ct.CallGhost["before@"+q], "before@"+q, call)
	x.runGhost(st, x.ct.CallGhost["before@"+qn], "before@"+qn, call)
	rs := x.callInner(st, call)
	if len(x.ct.CallGhost["after@"+q])+len(x.ct.CallGhost["after@"+qn]) > 0 {
		// the call's results are visible to the ghost statements as $r0, $r1, ...
		for i, r := range rs {
			st.ghost[fmt.Sprintf("$r%d", i)] = r
		}
		x.runGhost(st, x.ct.CallGhost["after@"+q], "after@"+q, call)
		x.runGhost(st, x.ct.CallGhost["after@"+qn], "after@"+qn, call)
		for i := range rs {
			delete(st.ghost, fmt.Sprintf("$r%d", i))
		}
	}
	if wantArgs {
		for i := range call.Args {
			delete(st.ghost, fmt.Sprintf("$a%d", i))
		}
	}
	return rs
}

func (x *Exec) callInner(st *State, call *ast.CallExpr) []Term {
	c := x.c()
	x.curPos = call.End() // literals among the arguments of this very call exist when the callee runs
	// conversion
	if tv, ok := x.info.Types[call.Fun]; ok && tv.IsType() {
		return []Term{x.convert(st, call)}
	}
	// builtin
	if id, ok := ast.Unparen(call.Fun).(*ast.Ident); ok {
		if b, isB := x.info.Uses[id].(*types.Builtin); isB {
			return x.builtin(st, call, b.Name())
		}
	}
	if se, ok := ast.Unparen(call.Fun).(*ast.SelectorExpr); ok {
		if b, isB := x.info.Uses[se.Sel].(*types.Builtin); isB { // unsafe.SliceData etc.
			return x.builtin(st, call, b.Name())
		}
	}
	fn := x.callee(call)
	resultTypes := func() []types.Type {
		var out []types.Type
		switch t := x.typeOf(call).(type) {
		case *types.Tuple:
			for i := 0; i < t.Len(); i++ {
				out = append(out, t.At(i).Type())
			}
		case nil:
		default:
			if b, ok := t.(*types.Basic); ok && b.Kind() == types.Invalid {
				return nil
			}
			out = append(out, t)
		}
		return out
	}
	havocResults := func(hint string) []Term {
		var rs []Term
		for _, rt := range resultTypes() {
			rs = append(rs, x.freshOf(hint, rt))
		}
		return rs
	}
	if fn == nil {
		if id, ok := ast.Unparen(call.Fun).(*ast.Ident); ok {
			if lit := x.closures[x.info.Uses[id]]; lit != nil {
				return x.inlineClosure(st, call, lit)
			}
			// immutable package-level function variable initialised with a literal: inline it
			if v, ok := x.info.Uses[id].(*types.Var); ok && x.w.isImmutable(v) && v.Pkg() == x.u.pkg.Types {
				if lit, ok := ast.Unparen(x.w.globalInit[v]).(*ast.FuncLit); ok {
					x.c().note("immutable package-level function variable inlined at its call site: " + v.Name())
					return x.inlineClosure(st, call, lit)
				}
			}
		}
		// call through a function value: results havocked, closure-assigned variables havocked
		for _, a := range call.Args {
			x.expr(st, a)
		}
		x.abstractNote(call, "call through function value "+x.exprText(call.Fun)+": results and closure-assigned variables havocked")
		x.havocClosureAssigned(st)
		return havocResults("fv")
	}
	pkgPath := ""
	if fn.Pkg() != nil {
		pkgPath = fn.Pkg().Path()
	}
	key := funcKey(fn)
	qual := key
	if fn.Pkg() != nil {
		qual = fn.Pkg().Name() + "." + key
	}
	if droppedPkgs[pkgPath] {
		c.note("dropped effect-free call: " + qual)
		return havocResults("dropped")
	}
	if rs, ok := x.intrinsic(st, call, fn, qual); ok {
		return rs
	}
	ct, cpkg, ccs := x.w.contractFor(x.u.pkg, fn)
	// A unit may ask for a named variant of an assumed dependency contract (`option variant <name>` selects
	// `assume func pkg.F@<name>` from std.spec where one exists): a richer statement of the same dependency that only the
	// units which need it pay for in solver time (e.g. the position witnesses of slices.Sort's permutation).
	if x.ct != nil && x.ct.Options["variant"] != "" && fn.Pkg() != nil {
		for _, v := range strings.Fields(x.ct.Options["variant"]) {
			if vct := x.w.std.Funcs[fn.Pkg().Name()+"."+funcKey(fn)+"@"+v]; vct != nil {
				ct, cpkg, ccs = vct, x.u.pkg, x.w.std
				c.note("assumed contract variant used: " + fn.Pkg().Name() + "." + funcKey(fn) + "@" + v)
			}
		}
	}
	sig := fn.Type().(*types.Signature)
	// evaluate receiver and arguments
	var recvExpr ast.Expr
	var recvTerm Term
	if sig.Recv() != nil {
		if sel, ok := ast.Unparen(call.Fun).(*ast.SelectorExpr); ok {
			recvExpr = sel.X
			recvTerm = x.expr(st, sel.X)
			// promoted through embedded fields
			if s := x.info.Selections[sel]; s != nil && len(s.Index()) > 1 {
				x.abstractNote(call, "method promoted through embedded field: receiver modifications not written back")
				recvExpr = nil
				cur := recvTerm
				curT := x.typeOf(sel.X)
				for _, idx := range s.Index()[:len(s.Index())-1] {
					if cur.Sort.Kind == KPtr {
						cur = c.ptrVal(cur)
					}
					if p, ok := types.Unalias(curT).Underlying().(*types.Pointer); ok {
						curT = p.Elem()
					}
					stt := types.Unalias(curT).Underlying().(*types.Struct)
					f := stt.Field(idx)
					fl := cur.Sort.field(f.Name())
					if fl == nil {
						x.unsupported(call, "embedded field %s", f.Name())
					}
					cur = app(fl.Sort, fl.Sel, cur)
					curT = f.Type()
				}
				recvTerm = cur
			}
		}
	}
	var args []Term
	if len(call.Args) == 1 && sig.Params().Len() > 1 {
		args = x.multi(st, call.Args[0])
	} else {
		for _, a := range call.Args {
			args = append(args, x.expr(st, a))
		}
	}
	if ct == nil {
		c.note("uncontracted call (results and reachable arguments havocked): " + qual)
		rs := havocResults(fn.Name())
		// havoc what the callee can reach through pointers / maps
		if recvExpr != nil && isRefLike(recvTerm) && x.isLvalue(recvExpr) {
			x.havocLvalue(st, recvExpr, recvTerm)
		}
		unknownClosure := false
		for i, a := range call.Args {
			if i < len(args) && isRefLike(args[i]) {
				if u, ok := ast.Unparen(a).(*ast.UnaryExpr); ok && u.Op.String() == "&" && x.isLvalue(u.X) {
					x.havocLvalue(st, u.X, x.expr(st, u.X))
				} else if x.isLvalue(a) {
					x.havocLvalue(st, a, args[i])
				}
			}
			if i < len(args) {
				if _, isSig := x.typeOf(a).Underlying().(*types.Signature); isSig {
					unknownClosure = true
				}
			}
		}
		if unknownClosure {
			x.havocClosureAssigned(st)
		}
		return rs
	}
	return x.callWithContract(st, call, fn, ct, cpkg, ccs, recvExpr, recvTerm, args, resultTypes())
}

func isRefLike(t Term) bool {
	return t.Sort != nil && (t.Sort.Kind == KPtr || t.Sort.Kind == KMap)
}

func (x *Exec) isLvalue(e ast.Expr) bool {
	switch e := ast.Unparen(e).(type) {
	case *ast.Ident:
		_, ok := x.info.Uses[e].(*types.Var)
		return ok
	case *ast.SelectorExpr:
		if s := x.info.Selections[e]; s != nil && s.Kind() == types.FieldVal && len(s.Index()) == 1 {
			return x.isLvalue(e.X)
		}
	case *ast.IndexExpr:
		return x.isLvalue(e.X)
	case *ast.StarExpr:
		return x.isLvalue(e.X)
	}
	return false
}

func (x *Exec) havocLvalue(st *State, e ast.Expr, cur Term) {
	t := x.freshOf("hv", x.typeOf(e))
	if cur.Sort.Kind == KPtr && t.Sort.Kind == KPtr {
		// same object, new content
		x.c().axiom(tEq(x.c().ptrIsNil(t), x.c().ptrIsNil(cur)))
		x.c().axiom(tEq(x.c().ptrRef(t), x.c().ptrRef(cur)))
	}
	if cur.Sort.Kind == KMap && t.Sort.Kind == KMap {
		x.c().axiom(tEq(x.c().mapNil(t), x.c().mapNil(cur)))
	}
	// writing the callee-modified pointee back into its container is a modelling device, not a Go map write
	x.modelWrite++
	x.assign(st, e, t)
	x.modelWrite--
}

// callWithContract applies the modular call rule.
func (x *Exec) callWithContract(st *State, call *ast.CallExpr, fn *types.Func, ct *Contract, cpkg pkgT, ccs *ContractSet,
	recvExpr ast.Expr, recvTerm Term, args []Term, resTypes []types.Type) []Term {
	c := x.c()
	fsig := fn.Type().(*types.Signature)
	sig := fsig
	if is, ok := x.typeOf(call.Fun).(*types.Signature); ok && is.Params().Len() == fsig.Params().Len() {
		// instantiated signature of a generic callee (parameter names are preserved)
		sig = types.NewSignatureType(fsig.Recv(), nil, nil, is.Params(), is.Results(), is.Variadic())
	}
	cu := *x.u
	cu.pkg = cpkg
	cu.cs = ccs
	pre := &Env{u: &cu, vars: map[string]Term{}}
	postEnv := &Env{u: &cu, vars: map[string]Term{}, old: pre}
	noMod := ct.Pure || (len(ct.Modifies) == 1 && ct.Modifies[0] == "nothing")
	modifiable := func(name string, t Term) bool {
		if noMod {
			return false
		}
		for _, m := range ct.Modifies {
			if m == name {
				return true // explicitly listed (also slices: element writes visible to the caller)
			}
		}
		if ct.Modifies == nil && isRefLike(t) {
			return true
		}
		return false
	}
	type wb struct {
		e   ast.Expr
		t   Term
		ptr bool // argument was &x: write back the pointee
	}
	var writebacks []wb
	bind := func(name string, want types.Type, t Term, e ast.Expr) {
		if name == "" || name == "_" {
			return
		}
		ws := c.sortOf(want)
		wrapped := false
		if ws.Kind == KPtr && t.Sort.Kind != KPtr && ws.Elem.Name == t.Sort.Name {
			ref := c.fresh("ref", sortInt)
			c.axiom(app(sortBool, ">", ref, tInt(0)))
			t = c.mkPtr(ws, ref, t)
			wrapped = true
		} else if ws.Kind != KPtr && t.Sort.Kind == KPtr && t.Sort.Elem.Name == ws.Name {
			t = c.ptrVal(t)
		} else {
			t = x.coerce(t, ws)
		}
		t.Go = want
		pre.vars[name] = t
		postEnv.vars[name] = t
		if modifiable(name, t) {
			nt := x.freshOf(name+"'", want)
			if t.Sort.Kind == KPtr {
				c.axiom(tEq(c.ptrIsNil(nt), c.ptrIsNil(t)))
				c.axiom(tEq(c.ptrRef(nt), c.ptrRef(t)))
			}
			if t.Sort.Kind == KMap {
				c.axiom(tEq(c.mapNil(nt), c.mapNil(t)))
			}
			postEnv.vars[name] = nt
			if e != nil {
				if u, ok := ast.Unparen(e).(*ast.UnaryExpr); ok && u.Op.String() == "&" && x.isLvalue(u.X) {
					writebacks = append(writebacks, wb{u.X, c.ptrVal(nt), true})
				} else if x.isLvalue(e) {
					if wrapped {
						writebacks = append(writebacks, wb{e, c.ptrVal(nt), true})
					} else {
						writebacks = append(writebacks, wb{e, nt, false})
					}
				}
			}
		}
	}
	// parameter names: from the declaration (types.Signature keeps them)
	if sig.Recv() != nil && recvTerm.ok() {
		rn := sig.Recv().Name()
		if rn == "" || rn == "_" {
			rn = "recv"
		}
		bind(rn, sig.Recv().Type(), recvTerm, recvExpr)
		if rn != "recv" {
			pre.vars["recv"] = pre.vars[rn]
			postEnv.vars["recv"] = postEnv.vars[rn]
		}
	}
	np := sig.Params().Len()
	for i := 0; i < np; i++ {
		p := sig.Params().At(i)
		name := p.Name()
		if i < len(ct.Params) {
			name = ct.Params[i]
		}
		if name == "" || name == "_" {
			name = fmt.Sprintf("p%d", i)
		}
		if sig.Variadic() && i == np-1 {
			if call.Ellipsis.IsValid() && i < len(args) {
				bind(name, p.Type(), args[i], nil)
			} else {
				// pack variadic arguments
				ss := c.sortOf(p.Type())
				arr := c.fresh("vararg", c.arrSort(sortInt, ss.Elem))
				k := int64(0)
				for j := i; j < len(args); j++ {
					arr = app(arr.Sort, "store", arr, tInt(k), x.coerce(args[j], ss.Elem))
					k++
				}
				bind(name, p.Type(), c.mkSlice(ss, tInt(k), arr), nil)
			}
			break
		}
		if i < len(args) {
			var ae ast.Expr
			if i < len(call.Args) && len(call.Args) == np {
				ae = call.Args[i]
			}
			bind(name, p.Type(), args[i], ae)
		}
	}
	// closures passed to this call run (only) during it: what they assign is unknown afterwards
	for _, a := range call.Args {
		if l, ok := ast.Unparen(a).(*ast.FuncLit); ok {
			var objs []types.Object
			for o := range x.assignedInLit(l) {
				if _, ok := st.vars[o]; ok {
					objs = append(objs, o)
				}
			}
			sort.Slice(objs, func(i, j int) bool { return objs[i].Pos() < objs[j].Pos() })
			for _, o := range objs {
				keep := false
				for _, w := range writebacks {
					if id, ok := ast.Unparen(w.e).(*ast.Ident); ok && x.objOf(id) == o {
						keep = true // the callee's postcondition describes it (receiver / reference argument)
					}
				}
				if !keep {
					x.havocVar(st, o)
				}
			}
		}
	}
	// preconditions
	n := x.names["precount@"+ct.Key]
	x.names["precount@"+ct.Key]++
	// the callee's parameters may have been renamed since its contract was written: bind the contract's names too
	if fd := x.w.funcDecls[fn]; fd != nil && fn.Pkg() != nil {
		if cp := x.w.pkgs[fn.Pkg().Path()]; cp != nil {
			key := strings.TrimPrefix(fn.Pkg().Path(), modPath+"/") + "." + funcKey(fn)
			for oldName, nw := range renameAliases(x.w.ledgerLocals[key], localsOf(cp.TypesInfo, fd)) {
				if t, ok := pre.vars[nw]; ok {
					if _, clash := pre.vars[oldName]; !clash {
						pre.vars[oldName] = t
						postEnv.vars[oldName] = postEnv.vars[nw]
					}
				}
			}
		}
	}
	for i, r := range ct.Requires {
		lbl := r.Label
		if lbl == "" {
			lbl = fmt.Sprint(i)
		}
		x.assert(st, x.safeSpec(pre, r.Expr, "requires of "+ct.Key), fmt.Sprintf("pre@%s#%d", ct.Key, n), lbl, call, "precondition of "+ct.Key+": "+r.Raw)
	}
	// results
	var rs []Term
	for i, rt := range resTypes {
		r := x.freshOf(fn.Name()+".r", rt)
		rs = append(rs, r)
		postEnv.vars[fmt.Sprintf("r%d", i)] = r
		if i < sig.Results().Len() {
			if rn := sig.Results().At(i).Name(); rn != "" && rn != "_" {
				postEnv.vars[rn] = r
			}
		}
	}
	if len(rs) == 1 {
		postEnv.vars["result"] = rs[0]
	}
	if ct.Pure && len(rs) == 1 {
		var as []Term
		if sig.Recv() != nil && recvTerm.ok() {
			rn := sig.Recv().Name()
			if rn == "" || rn == "_" {
				rn = "recv"
			}
			as = append(as, pre.vars[rn])
		}
		for i := 0; i < np && i < len(args); i++ {
			name := sig.Params().At(i).Name()
			if i < len(ct.Params) {
				name = ct.Params[i]
			}
			if name == "" || name == "_" {
				name = fmt.Sprintf("p%d", i)
			}
			as = append(as, pre.vars[name])
		}
		if t, ok := cu.pureGoCallTerms(ct.Key, fn, as); ok {
			x.assume(st, tEq(rs[0], t))
		}
	}
	for _, e := range ct.Ensures {
		x.assume(st, x.safeSpec(postEnv, e.Expr, "ensures of "+ct.Key))
	}
	if ct.Assumed {
		c.note("assumed contract (dependency, unchecked): " + ct.Key)
	}
	x.modelWrite++
	for _, w := range writebacks {
		x.assign(st, w.e, w.t)
	}
	x.modelWrite--
	return rs
}

func (u *Unit) pureGoCallTerms(key string, fn *types.Func, ts []Term) (Term, bool) {
	sig := fn.Type().(*types.Signature)
	if sig.Results().Len() != 1 {
		return Term{}, false
	}
	name := "gofn." + sanitize(u.pkg.Name+"."+key)
	// pointer arguments are represented by their pointees: a pure function depends on the values only
	ts = append([]Term{}, ts...)
	for i := range ts {
		if ts[i].Sort.Kind == KPtr {
			ts[i] = u.c.ptrVal(ts[i])
		}
	}
	rs := u.c.sortOf(sig.Results().At(0).Type())
	if !u.c.declared[name] {
		u.c.declared[name] = true
		var ss []string
		for _, t := range ts {
			ss = append(ss, t.Sort.Name)
		}
		u.c.emit(fmt.Sprintf("(declare-fun %s (%s) %s)", name, strings.Join(ss, " "), rs.Name))
	}
	r := app(rs, name, ts...)
	r.Go = sig.Results().At(0).Type()
	return r, true
}

// intrinsic models a few standard-library calls directly.
func (x *Exec) intrinsic(st *State, call *ast.CallExpr, fn *types.Func, qual string) ([]Term, bool) {
	c := x.c()
	switch qual {
	case "sync.Mutex.Lock", "sync.Mutex.Unlock", "sync.RWMutex.Lock", "sync.RWMutex.Unlock", "sync.RWMutex.RLock", "sync.RWMutex.RUnlock":
		c.note("mutex operation treated as no-op (critical sections assumed atomic): " + qual)
		return nil, true
	case "fmt.Errorf", "errors.New", "errors.Wrap", "errors.Wrapf", "errors.Errorf", "errors.WithStack", "errors.WithMessage":
		// github.com/pkg/errors.Wrap(nil, ..) returns nil; the others are non-nil
		r := c.fresh("err", sortErr)
		if strings.HasPrefix(qual, "errors.Wrap") || qual == "errors.WithStack" || qual == "errors.WithMessage" {
			inner := x.expr(st, call.Args[0])
			c.axiom(tEq(tEq(r, Term{S: "err.nil", Sort: sortErr}), tEq(inner, Term{S: "err.nil", Sort: sortErr})))
		} else {
			c.axiom(tNot(tEq(r, Term{S: "err.nil", Sort: sortErr})))
		}
		c.note("error constructor modelled as fresh error value: " + qual)
		return []Term{r}, true
	case "fmt.Sprintf", "fmt.Sprint", "strings.Join", "fmt.Sprintln":
		c.note("string formatting modelled as fresh string: " + qual)
		return []Term{c.fresh("str", sortStr)}, true
	case "sort.Slice":
		// sort.Slice(x, func(i, j int) bool { return x[i] < x[j] }) on an integer slice: sorted permutation.
		// Any other comparison closure: the slice is havocked (sound, uninformative).
		if len(call.Args) == 2 && x.isLvalue(call.Args[0]) {
			cur := x.expr(st, call.Args[0])
			if cur.Sort.Kind == KSlice && cur.Sort.Elem.Kind == KInt && x.isAscendingLess(call.Args[0], call.Args[1]) {
				r := x.sortedPermutation(cur)
				c.note("assumed contract (dependency, unchecked): sort.Slice with an ascending '<' closure returns a sorted permutation")
				x.assign(st, call.Args[0], r)
				return nil, true
			}
			x.havocLvalue(st, call.Args[0], cur)
			c.note("sort.Slice with an unrecognised comparison: slice havocked")
			return nil, true
		}
	case "sort.Strings":
		// sort.Strings(x): a sorted permutation in place (string order = the abstract total order gs.lt), with the
		// position witnesses of sortpos.
		if len(call.Args) == 1 && x.isLvalue(call.Args[0]) {
			cur := x.expr(st, call.Args[0])
			if cur.Sort.Kind == KSlice && cur.Sort.Elem.Kind == KStr {
				x.u.ensureStrOrder()
				c.note("assumed contract (dependency, unchecked): sort.Strings returns a sorted permutation in place")
				x.assign(st, call.Args[0], x.sortedPermutation(cur))
				return nil, true
			}
		}
	case "sort.Sort", "sort.IsSorted":
		// sort.Sort(Tokens(x)) / sort.IsSorted(Tokens(x)): the named slice type's Less is ascending '<'
		// (ring.Tokens.Less carries that contract); the conversion shares x's backing array.
		if len(call.Args) == 1 {
			if conv, ok := ast.Unparen(call.Args[0]).(*ast.CallExpr); ok && len(conv.Args) == 1 {
				if tv, ok := x.info.Types[conv.Fun]; ok && tv.IsType() {
					if named, ok := types.Unalias(tv.Type).(*types.Named); ok && named.Obj().Name() == "Tokens" {
						cur := x.expr(st, conv.Args[0])
						if cur.Sort.Kind == KSlice && cur.Sort.Elem.Kind == KInt {
							c.note("assumed contract (dependency, unchecked): " + qual + " over ring.Tokens (ascending Less, proved as Tokens.Less) " + map[string]string{"sort.Sort": "returns a sorted permutation in place", "sort.IsSorted": "reports non-strict ascending order"}[qual])
							if qual == "sort.IsSorted" {
								n := c.slLen(cur)
								return []Term{{S: fmt.Sprintf("(forall ((a Int) (b Int)) (=> (and (<= 0 a) (< a b) (< b %s)) (<= (select %s a) (select %s b))))", n.S, c.slArr(cur).S, c.slArr(cur).S), Sort: sortBool}}, true
							}
							if x.isLvalue(conv.Args[0]) {
								x.assign(st, conv.Args[0], x.sortedPermutation(cur))
								return nil, true
							}
						}
					}
				}
			}
		}
	case "time.Now":
		t := x.freshOf("now", x.typeOf(call))
		if prev, ok := st.ghost["$now"]; ok {
			x.assume(st, app(sortBool, ">=", app(sortInt, "Time.ns", t), app(sortInt, "Time.ns", prev)))
		}
		c.axiom(app(sortBool, ">", app(sortInt, "Time.ns", t), Term{S: "time.zero", Sort: sortInt}))
		st.ghost["$now"] = t
		c.note("time.Now: havocked, monotone within a function")
		return []Term{t}, true
	}
	return nil, false
}

func (x *Exec) builtin(st *State, call *ast.CallExpr, name string) []Term {
	c := x.c()
	switch name {
	case "len", "cap":
		v := x.expr(st, call.Args[0])
		if v.Sort.Kind == KPtr {
			v = c.ptrVal(v)
		}
		var r Term
		switch v.Sort.Kind {
		case KSlice:
			r = c.slLen(v)
			if name == "cap" {
				fn := "cap." + v.Sort.Name
				if !c.declared[fn] {
					c.declared[fn] = true
					c.emit(fmt.Sprintf("(declare-fun %s (%s) Int)", fn, v.Sort.Name))
					c.emit(fmt.Sprintf("(assert (forall ((s %s)) (! (>= (%s s) (%s.len s)) :pattern ((%s s)))))", v.Sort.Name, fn, v.Sort.Name, fn))
				}
				r = app(sortInt, fn, v)
			}
		case KMap:
			r = c.mapCard(v)
		case KStr:
			r = app(sortInt, "gs.len", v)
		default:
			x.abstractNote(call, name+" of "+v.Sort.Name+" (havocked)")
			r = c.fresh(name, sortInt)
			c.axiom(app(sortBool, ">=", r, tInt(0)))
		}
		r.Go = types.Typ[types.Int]
		return []Term{r}
	case "append":
		return []Term{x.appendCall(st, call)}
	case "make":
		t := x.typeOf(call)
		s := c.sortOf(t)
		switch s.Kind {
		case KSlice:
			ln := tInt(0)
			if len(call.Args) > 1 {
				ln = x.expr(st, call.Args[1])
				x.assert(st, app(sortBool, ">=", ln, tInt(0)), "makelen", x.exprText(call), call, "non-negative length in "+x.exprText(call))
			}
			if len(call.Args) > 2 {
				x.expr(st, call.Args[2])
			}
			var et types.Type
			if sl, ok := types.Unalias(t).Underlying().(*types.Slice); ok {
				et = sl.Elem()
			}
			arr := c.constArr(c.arrSort(sortInt, s.Elem), c.zero(s.Elem, et))
			r := c.mkSlice(s, ln, arr)
			r.Go = t
			return []Term{c.define("make", r)}
		case KMap:
			if len(call.Args) > 1 {
				x.expr(st, call.Args[1])
			}
			r := x.emptyMap(s)
			r.Go = t
			return []Term{r}
		}
		x.abstractNote(call, "make of "+s.Name+" (opaque)")
		return []Term{x.freshOf("make", t)}
	case "new":
		t := x.typeOf(call)
		s := c.sortOf(t)
		ref := c.fresh("ref", sortInt)
		c.axiom(app(sortBool, ">", ref, tInt(0)))
		var et types.Type
		if p, ok := types.Unalias(t).Underlying().(*types.Pointer); ok {
			et = p.Elem()
		}
		r := c.mkPtr(s, ref, c.zero(s.Elem, et))
		r.Go = t
		return []Term{r}
	case "delete":
		m := x.expr(st, call.Args[0])
		k := x.expr(st, call.Args[1])
		if m.Sort.Kind != KMap {
			x.unsupported(call, "delete on %s", m.Sort.Name)
		}
		x.assign(st, call.Args[0], x.mapDelete(m, k))
		return nil
	case "min", "max":
		r := x.expr(st, call.Args[0])
		for _, a := range call.Args[1:] {
			v := x.expr(st, a)
			switch {
			case r.Sort.Kind == KStr: // strings: the order of the < operator (gs.lt)
				x.u.ensureStrOrder()
				if name == "min" {
					r = tIte(app(sortBool, "gs.lt", v, r), v, r)
				} else {
					r = tIte(app(sortBool, "gs.lt", r, v), v, r)
				}
			case r.Sort.Kind != KInt:
				x.unsupported(call, "%s on %s", name, r.Sort.Name)
			case name == "min":
				r = tIte(app(sortBool, "<=", r, v), r, v)
			default:
				r = tIte(app(sortBool, ">=", r, v), r, v)
			}
		}
		r.Go = x.typeOf(call)
		return []Term{r}
	case "copy":
		dst := x.expr(st, call.Args[0])
		src := x.expr(st, call.Args[1])
		if dst.Sort.Kind != KSlice || src.Sort.Kind != KSlice {
			x.unsupported(call, "copy on %s", dst.Sort.Name)
		}
		n := tIte(app(sortBool, "<=", c.slLen(dst), c.slLen(src)), c.slLen(dst), c.slLen(src))
		n = c.define("copyn", n)
		r := c.fresh("copied", dst.Sort)
		c.axiom(tEq(c.slLen(r), c.slLen(dst)))
		c.axiom(Term{S: fmt.Sprintf("(forall ((j Int)) (! (= (select %s j) (ite (and (<= 0 j) (< j %s)) (select %s j) (select %s j))) :pattern ((select %s j))))",
			c.slArr(r).S, n.S, c.slArr(src).S, c.slArr(dst).S, c.slArr(r).S), Sort: sortBool})
		x.assign(st, call.Args[0], r)
		return []Term{n}
	case "clear":
		v := x.expr(st, call.Args[0])
		if v.Sort.Kind == KMap {
			e := x.emptyMap(v.Sort)
			x.assign(st, call.Args[0], e)
			return nil
		}
		x.unsupported(call, "clear on %s", v.Sort.Name)
	case "panic":
		x.assert(st, tFalse, "nopanic", "", call, "panic is unreachable")
		st.pc = tFalse
		return nil
	case "close":
		x.abstractNote(call, "close(chan) dropped (concurrency: abstracted)")
		return nil
	case "print", "println":
		return nil
	case "SliceData":
		// unsafe.SliceData(s): pointer identity of the backing array, an uninterpreted reference.
		// Trusted: two slices with the same data pointer and the same length hold the same elements.
		v := x.expr(st, call.Args[0])
		ps := c.sortOf(x.typeOf(call))
		if v.Sort.Kind != KSlice || ps.Kind != KPtr {
			x.unsupported(call, "unsafe.SliceData on %s", v.Sort.Name)
		}
		fn := "dataref." + v.Sort.Name
		if !c.declared[fn] {
			c.declared[fn] = true
			n := v.Sort.Name
			c.emit(fmt.Sprintf("(declare-fun %s (%s) Int)", fn, n))
			c.emit(fmt.Sprintf("(assert (forall ((a %s) (b %s)) (! (=> (and (= (%s a) (%s b)) (= (%s.len a) (%s.len b))) (forall ((j Int)) (=> (and (<= 0 j) (< j (%s.len a))) (= (select (%s.arr a) j) (select (%s.arr b) j))))) :pattern ((%s a) (%s b)))))", n, n, fn, fn, n, n, n, n, n, fn, fn))
			c.note("unsafe.SliceData: same data pointer and same length imply equal elements (trusted)")
		}
		ref := app(sortInt, fn, v)
		c.axiom(app(sortBool, ">", ref, tInt(0)))
		r := c.mkPtr(ps, ref, c.zero(ps.Elem, nil))
		r.Go = x.typeOf(call)
		return []Term{r}
	}
	x.unsupported(call, "builtin %s", name)
	return nil
}

func (x *Exec) appendCall(st *State, call *ast.CallExpr) Term {
	c := x.c()
	base := x.expr(st, call.Args[0])
	if base.Sort.Kind != KSlice {
		x.unsupported(call, "append to %s", base.Sort.Name)
	}
	gt := x.typeOf(call)
	if call.Ellipsis.IsValid() {
		other := x.expr(st, call.Args[1])
		if other.Sort.Kind == KStr {
			x.abstractNote(call, "append(bytes, string...) havocked")
			return x.freshOf("append", gt)
		}
		r := c.fresh("appended", base.Sort)
		la, lb := c.slLen(base), c.slLen(other)
		c.axiom(tEq(c.slLen(r), app(sortInt, "+", la, lb)))
		c.axiom(Term{S: fmt.Sprintf("(forall ((j Int)) (! (= (select %s j) (ite (< j %s) (select %s j) (select %s (- j %s)))) :pattern ((select %s j))))",
			c.slArr(r).S, la.S, c.slArr(base).S, c.slArr(other).S, la.S, c.slArr(r).S), Sort: sortBool})
		r.Go = gt
		return r
	}
	ln := c.slLen(base)
	arr := c.slArr(base)
	for i, a := range call.Args[1:] {
		v := x.coerce(x.expr(st, a), base.Sort.Elem)
		arr = app(arr.Sort, "store", arr, app(sortInt, "+", ln, tInt(int64(i))), v)
	}
	r := c.mkSlice(base.Sort, app(sortInt, "+", ln, tInt(int64(len(call.Args)-1))), arr)
	r.Go = gt
	return c.define("append", r)
}

// isAscendingLess recognises func(i, j int) bool { return x[i] < x[j] } for the slice expression x.
func (x *Exec) isAscendingLess(sl ast.Expr, fn ast.Expr) bool {
	lit, ok := ast.Unparen(fn).(*ast.FuncLit)
	if !ok || len(lit.Body.List) != 1 || lit.Type.Params == nil {
		return false
	}
	var names []string
	for _, f := range lit.Type.Params.List {
		for _, n := range f.Names {
			names = append(names, n.Name)
		}
	}
	if len(names) != 2 {
		return false
	}
	ret, ok := lit.Body.List[0].(*ast.ReturnStmt)
	if !ok || len(ret.Results) != 1 {
		return false
	}
	be, ok := ast.Unparen(ret.Results[0]).(*ast.BinaryExpr)
	if !ok || be.Op.String() != "<" {
		return false
	}
	want := x.exprText(sl)
	l, lok := ast.Unparen(be.X).(*ast.IndexExpr)
	r, rok := ast.Unparen(be.Y).(*ast.IndexExpr)
	if !lok || !rok {
		return false
	}
	li, _ := l.Index.(*ast.Ident)
	ri, _ := r.Index.(*ast.Ident)
	return li != nil && ri != nil && li.Name == names[0] && ri.Name == names[1] && x.exprText(l.X) == want && x.exprText(r.X) == want
}

// sortedPermutation: a fresh slice that is a non-strictly ascending permutation of cur, witnessed by the
// global position function sortw(a, b, i) = "position in b of the element a[i]" (spec builtin sortpos).
func (x *Exec) sortedPermutation(cur Term) Term {
	c := x.c()
	r := c.fresh("sorted", cur.Sort)
	n := c.slLen(cur)
	fn := c.sortwFn(cur.Sort)
	ra, ca := c.slArr(r).S, c.slArr(cur).S
	perm := func(a string) string { return fmt.Sprintf("(%s %s %s %s)", fn, ra, ca, a) }
	inv := func(b string) string { return fmt.Sprintf("(%s %s %s %s)", fn, ca, ra, b) }
	c.axiom(tEq(c.slLen(r), n))
	if cur.Sort.Elem.Kind == KStr {
		c.axiom(Term{S: fmt.Sprintf("(forall ((a Int) (b Int)) (=> (and (<= 0 a) (< a b) (< b %s)) (not (gs.lt (select %s b) (select %s a)))))", n.S, ra, ra), Sort: sortBool})
	} else {
		c.axiom(Term{S: fmt.Sprintf("(forall ((a Int) (b Int)) (=> (and (<= 0 a) (< a b) (< b %s)) (<= (select %s a) (select %s b))))", n.S, ra, ra), Sort: sortBool})
	}
	c.axiom(Term{S: fmt.Sprintf("(forall ((a Int)) (! (=> (and (<= 0 a) (< a %s)) (and (<= 0 %s) (< %s %s) (= (select %s a) (select %s %s)) (= %s a))) :pattern ((select %s a)) :pattern (%s)))", n.S, perm("a"), perm("a"), n.S, ra, ca, perm("a"), inv(perm("a")), ra, perm("a")), Sort: sortBool})
	// every input position is the image of an output position
	c.axiom(Term{S: fmt.Sprintf("(forall ((b Int)) (! (=> (and (<= 0 b) (< b %s)) (and (<= 0 %s) (< %s %s) (= (select %s b) (select %s %s)) (= %s b))) :pattern ((select %s b)) :pattern (%s)))", n.S, inv("b"), inv("b"), n.S, ca, ra, inv("b"), perm(inv("b")), ca, inv("b")), Sort: sortBool})
	r.Go = cur.Go
	return r
}

// sortwFn declares the position-witness function of sorted permutations for a slice sort.
func (c *Ctx) sortwFn(sl *Sort) string {
	as := c.arrSort(sortInt, sl.Elem)
	fn := "sortw." + sanitize(sl.Name)
	if !c.declared[fn] {
		c.declared[fn] = true
		c.emit(fmt.Sprintf("(declare-fun %s (%s %s Int) Int)", fn, as.Name, as.Name))
	}
	return fn
}
