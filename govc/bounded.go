package main

// Bounded stand-ins and replay harnesses: Go tests kept in /verif/bounded/<prop>/,
// injected into the real package with `go test -overlay` (nothing is written to /repo)
// and executed on the real code. Their results are reported under coverage.bounded,
// labelled with their bound, and NEVER added to the discharged proof obligations.
// The same harnesses serve as the bounded model finder that produces a concrete
// failing input for a failed obligation (DESIGN 5.2/5.3).

import (
	"bytes"
	"context"
	"encoding/json"
	"fmt"
	"os"
	"os/exec"
	"path/filepath"
	"regexp"
	"sort"
	"strconv"
	"strings"
	"time"
)

const repoGo = "/root/go/pkg/mod/golang.org/toolchain@v0.0.1-go1.26.6.linux-amd64/bin/go"

type boundedResult struct {
	report      []map[string]any
	evaluations int
	distinct    int
	violations  []violation
	known       []string
	firstReplay string
}

var pkgHdrRe = regexp.MustCompile(`(?m)^// verif-pkg:\s*(\S+)`)
var casesRe = regexp.MustCompile(`BOUNDED-CASES name=(\S+) n=(\d+) distinct=(\d+) bound=(.*)`)
var violRe = regexp.MustCompile(`BOUNDED-VIOLATION case=(\S+) (.*)`)

func goTestEnv(tier string, seed int) []string {
	env := goEnv()
	env = append(env, "VERIF_TIER="+tier, fmt.Sprintf("VERIF_SEED=%d", seed), "GOMAXPROCS=8")
	return env
}

func runBounded(prop, tier string, seed int, replayDir string, findings []Finding) boundedResult {
	var res boundedResult
	files, _ := filepath.Glob(filepath.Join(verifDir, "bounded", prop, "*_test.go"))
	sort.Strings(files)
	if len(files) == 0 {
		return res
	}
	byPkg := map[string][]string{}
	for _, f := range files {
		data, err := os.ReadFile(f)
		if err != nil {
			continue
		}
		m := pkgHdrRe.FindSubmatch(data)
		if m == nil {
			continue
		}
		byPkg[string(m[1])] = append(byPkg[string(m[1])], f)
	}
	// shared helper files (bounded/common) are injected for the packages they belong to
	common, _ := filepath.Glob(filepath.Join(verifDir, "bounded", "common", "*_test.go"))
	for _, f := range common {
		data, err := os.ReadFile(f)
		if err != nil {
			continue
		}
		if m := pkgHdrRe.FindSubmatch(data); m != nil {
			if _, used := byPkg[string(m[1])]; used {
				byPkg[string(m[1])] = append(byPkg[string(m[1])], f)
			}
		}
	}
	var pkgs []string
	for p := range byPkg {
		pkgs = append(pkgs, p)
	}
	sort.Strings(pkgs)
	tmp, _ := os.MkdirTemp("", "govc-ov-")
	defer os.RemoveAll(tmp)
	for _, pkg := range pkgs {
		ov := map[string]map[string]string{"Replace": {}}
		for _, f := range byPkg[pkg] {
			ov["Replace"][filepath.Join(repoDir, pkg, "zz_verif_"+strings.ToLower(prop)+"_"+filepath.Base(f))] = f
		}
		ovData, _ := json.Marshal(ov)
		ovPath := filepath.Join(tmp, "ov_"+sanitize(pkg)+".json")
		os.WriteFile(ovPath, ovData, 0o644)
		limit := 8 * time.Minute
		if tier == "thorough" {
			limit = 40 * time.Minute
		}
		ctx, cancel := context.WithTimeout(context.Background(), limit+time.Minute)
		cmd := exec.CommandContext(ctx, repoGo, "test", "-overlay", ovPath, "-vet=off", "-count=1", "-timeout", limit.String(), "-run", "^TestVerifBounded_"+prop+"_", "-v", "./"+pkg+"/")
		cmd.Dir = repoDir
		cmd.Env = goTestEnv(tier, seed)
		var out bytes.Buffer
		cmd.Stdout = &out
		cmd.Stderr = &out
		t0 := time.Now()
		err := cmd.Run()
		cancel()
		text := out.String()
		logPath := filepath.Join(replayDir, "bounded_"+sanitize(pkg)+".log")
		os.WriteFile(logPath, []byte(text), 0o644)
		ncases := 0
		for _, m := range casesRe.FindAllStringSubmatch(text, -1) {
			n, _ := strconv.Atoi(m[2])
			d, _ := strconv.Atoi(m[3])
			res.evaluations += n
			res.distinct += d
			ncases++
			res.report = append(res.report, map[string]any{"label": "bounded (not proof)", "harness": m[1], "package": pkg, "cases": n, "distinct": d, "bound": strings.TrimSpace(m[4]), "wall_s": time.Since(t0).Seconds()})
		}
		vms := violRe.FindAllStringSubmatch(text, -1)
		for _, m := range vms {
			id, desc := m[1], m[2]
			isKnown := false
			for _, f := range findings {
				if f.Kind == "finding" && f.Property == prop && f.Match == id {
					res.known = append(res.known, fmt.Sprintf("KNOWN-FINDING: property=%s %s", prop, f.Text))
					isKnown = true
				}
			}
			if isKnown {
				continue
			}
			rp := filepath.Join(replayDir, "bounded_"+sanitize(id)+".txt")
			body := fmt.Sprintf("property: %s\nbounded harness case: %s\n%s\n\nreplay: cd /repo && %s test -overlay <overlay mapping %v> -vet=off -count=1 -run '^TestVerifBounded_%s_' -v ./%s/\nfull log: %s\n", prop, id, desc, repoGo, ov["Replace"], prop, pkg, logPath)
			os.WriteFile(rp, []byte(body), 0o644)
			if res.firstReplay == "" {
				res.firstReplay = rp
			}
			res.violations = append(res.violations, violation{obl: "bounded:" + id, replay: rp, hasInput: true, what: desc})
		}
		if err != nil && len(vms) == 0 {
			// build failure, panic or timeout of the harness on this tree
			rp := filepath.Join(replayDir, "bounded_"+sanitize(pkg)+".failed.txt")
			tail := text
			if len(tail) > 6000 {
				tail = tail[len(tail)-6000:]
			}
			os.WriteFile(rp, []byte(fmt.Sprintf("property: %s\nthe bounded harness for package %s did not complete on this tree: %v\n%s\n", prop, pkg, err, tail)), 0o644)
			res.violations = append(res.violations, violation{obl: "bounded:" + pkg, replay: rp, hasInput: strings.Contains(text, "--- FAIL"), what: "bounded harness failed: " + firstFail(text)})
			if res.firstReplay == "" && strings.Contains(text, "--- FAIL") {
				res.firstReplay = rp
			}
		}
		if ncases == 0 && err == nil {
			res.report = append(res.report, map[string]any{"label": "bounded (not proof)", "package": pkg, "cases": 0, "note": "harness reported no cases"})
		}
	}
	return res
}

func firstFail(text string) string {
	for _, l := range strings.Split(text, "\n") {
		if strings.Contains(l, "panic:") || strings.Contains(l, "--- FAIL") || strings.Contains(l, "cannot") || strings.Contains(l, "undefined") {
			return strings.TrimSpace(l)
		}
	}
	return "see log"
}

// tryReplay: a failed obligation is replayed through the property's bounded harness
// (run by runCheck); here we only add the solver's model, when one exists, to the
// obligation's replay text.
func tryReplay(w *World, u *UnitResult, o *Obligation, prop, replayDir string) string {
	if o.script == "" || o.Result != "failed" {
		return ""
	}
	f := filepath.Join(replayDir, sanitize(o.Name)+".model.smt2")
	os.WriteFile(f, []byte(strings.Replace(o.script, "(check-sat)", "(check-sat)\n(get-model)", 1)), 0o644)
	ctx, cancel := context.WithTimeout(context.Background(), 20*time.Second)
	defer cancel()
	out, _ := exec.CommandContext(ctx, "z3-new", "-T:15", f).CombinedOutput()
	p := filepath.Join(replayDir, sanitize(o.Name)+".txt")
	old, _ := os.ReadFile(p)
	m := string(out)
	if len(m) > 20000 {
		m = m[:20000]
	}
	os.WriteFile(p, append(old, []byte("\nsolver model (z3 5.1.0):\n"+m)...), 0o644)
	return ""
}
