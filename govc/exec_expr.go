package main

// Go expressions -> SMT terms (with safety obligations).

import (
	"fmt"
	"go/ast"
	"go/constant"
	"go/token"
	"go/types"
	"math/big"
	"strings"
)

func (x *Exec) typeOf(e ast.Expr) types.Type { return x.info.TypeOf(e) }

func (x *Exec) exprText(e ast.Node) string {
	var sb strings.Builder
	_ = printerFprint(&sb, x.fset, e)
	s := sb.String()
	s = strings.Join(strings.Fields(s), " ")
	if len(s) > 60 {
		s = s[:60]
	}
	return s
}

// expr evaluates a single-valued expression.
func (x *Exec) expr(st *State, e ast.Expr) Term {
	c := x.c()
	if tv, ok := x.info.Types[e]; ok && tv.Value != nil {
		if t, ok := x.u.constTerm(tv.Value, tv.Type); ok {
			return t
		}
		if tv.Value.Kind() == constant.Float {
			return x.freshOf("floatconst", tv.Type)
		}
	}
	switch e := e.(type) {
	case *ast.ParenExpr:
		return x.expr(st, e.X)
	case *ast.Ident:
		return x.ident(st, e)
	case *ast.BasicLit:
		x.unsupported(e, "literal %s", e.Value)
	case *ast.SelectorExpr:
		return x.selector(st, e)
	case *ast.StarExpr:
		p := x.expr(st, e.X)
		if p.Sort.Kind != KPtr {
			x.unsupported(e, "deref of %s", p.Sort.Name)
		}
		x.assert(st, tNot(c.ptrIsNil(p)), "nilderef", x.exprText(e), e, "non-nil "+x.exprText(e.X))
		t := c.ptrVal(p)
		t.Go = x.typeOf(e)
		return t
	case *ast.UnaryExpr:
		return x.unary(st, e)
	case *ast.BinaryExpr:
		return x.binary(st, e)
	case *ast.IndexExpr:
		return x.index(st, e)
	case *ast.SliceExpr:
		return x.sliceExpr(st, e)
	case *ast.CallExpr:
		rs := x.call(st, e)
		if len(rs) != 1 {
			x.unsupported(e, "call used as single value returns %d values", len(rs))
		}
		return rs[0]
	case *ast.CompositeLit:
		return x.composite(st, e)
	case *ast.FuncLit:
		t := x.freshOf("closure", x.typeOf(e))
		x.c().axiom(tNot(x.c().opaqueIsNil(t)))
		return t
	case *ast.TypeAssertExpr:
		v, ok := x.typeAssert(st, e)
		x.assert(st, ok, "typeassert", x.exprText(e), e, "type assertion succeeds: "+x.exprText(e))
		return v
	case *ast.KeyValueExpr:
		x.unsupported(e, "key-value outside literal")
	}
	x.unsupported(e, "expression %T", e)
	return Term{}
}

func (x *Exec) abstractNote(n ast.Node, what string) {
	x.abstracted = append(x.abstracted, x.posOf(n)+": "+what)
}

func (x *Exec) ident(st *State, e *ast.Ident) Term {
	obj := x.info.Uses[e]
	if obj == nil {
		obj = x.info.Defs[e]
	}
	switch o := obj.(type) {
	case *types.Var:
		if t, ok := st.vars[o]; ok {
			return t
		}
		if o.Pkg() != nil && o.Parent() == o.Pkg().Scope() {
			if x.initGlobals {
				// inside init: package-level variables start at their zero value
				z := x.c().zero(x.c().sortOf(o.Type()), o.Type())
				z.Go = o.Type()
				st.vars[o] = z
				return z
			}
			g := x.c().global(o)
			if init := x.w.globalInit[o]; init != nil && x.w.isImmutable(o) && o.Pkg() == x.u.pkg.Types && !x.c().declared["ginit."+g.S] {
				// an immutable package-level variable equals its initialiser expression
				x.c().declared["ginit."+g.S] = true
				v := x.expr(st, init)
				x.c().axiom(tEq(g, x.coerce(v, g.Sort)))
				x.c().note("immutable package-level variable equals its initialiser: " + o.Name())
			}
			return g
		}
		if o.Parent() == o.Pkg().Scope() || (o.Pkg() != nil && o.Parent() == nil && !o.IsField()) {
			return x.c().global(o)
		}
		if o.Pkg() != nil && o.Pkg().Scope().Lookup(o.Name()) == o {
			return x.c().global(o)
		}
		x.unsupported(e, "variable %s not in state", e.Name)
	case *types.Nil:
		t := x.typeOf(e)
		return x.c().zero(x.c().sortOf(t), t)
	case *types.Const:
		if t, ok := x.u.constTerm(o.Val(), o.Type()); ok {
			return t
		}
	case *types.Func:
		t := x.freshOf("funcval", o.Type())
		x.c().axiom(tNot(x.c().opaqueIsNil(t)))
		return t
	}
	x.unsupported(e, "identifier %s (%T)", e.Name, obj)
	return Term{}
}

// deref turns a pointer-to-struct term into the struct value (with nil obligation).
func (x *Exec) autoDeref(st *State, t Term, n ast.Node) Term {
	if t.Sort.Kind == KPtr {
		x.assert(st, tNot(x.c().ptrIsNil(t)), "nilderef", x.exprText(n), n, "non-nil "+x.exprText(n))
		return x.c().ptrVal(x.c().recFull(t))
	}
	return t
}

func (x *Exec) selector(st *State, e *ast.SelectorExpr) Term {
	c := x.c()
	// package-qualified
	if id, ok := e.X.(*ast.Ident); ok {
		if _, isPkg := x.info.Uses[id].(*types.PkgName); isPkg {
			switch o := x.info.Uses[e.Sel].(type) {
			case *types.Var:
				return c.global(o)
			case *types.Const:
				if t, ok := x.u.constTerm(o.Val(), o.Type()); ok {
					return t
				}
			case *types.Func:
				return x.freshOf("funcval", o.Type())
			}
			x.unsupported(e, "qualified identifier %s.%s", id.Name, e.Sel.Name)
		}
	}
	sel := x.info.Selections[e]
	if sel == nil {
		x.unsupported(e, "selector without selection")
	}
	if sel.Kind() != types.FieldVal {
		// method value
		return x.freshOf("methodval", x.typeOf(e))
	}
	base := x.expr(st, e.X)
	// follow the (possibly embedded) field path
	cur := base
	curT := x.typeOf(e.X)
	for _, idx := range sel.Index() {
		cur = x.autoDeref(st, cur, e.X)
		if p, ok := types.Unalias(curT).Underlying().(*types.Pointer); ok {
			curT = p.Elem()
		}
		stt, ok := types.Unalias(curT).Underlying().(*types.Struct)
		if !ok {
			x.unsupported(e, "field of non-struct %s", curT)
		}
		f := stt.Field(idx)
		if cur.Sort.Kind != KStruct {
			x.unsupported(e, "field %s of sort %s", f.Name(), cur.Sort.Name)
		}
		fl := cur.Sort.field(f.Name())
		if fl == nil {
			x.unsupported(e, "no field %s in %s", f.Name(), cur.Sort.Name)
		}
		cur = app(fl.Sort, fl.Sel, cur)
		cur.Go = f.Type()
		curT = f.Type()
	}
	if cur.Sort.Kind == KInt || cur.Sort.Kind == KSlice || cur.Sort.Kind == KMap {
		x.assume(st, c.typeFactsQ(cur, cur.Go, 0, 0))
	}
	return cur
}

func (x *Exec) unary(st *State, e *ast.UnaryExpr) Term {
	c := x.c()
	switch e.Op {
	case token.NOT:
		return tNot(x.expr(st, e.X))
	case token.SUB:
		v := x.expr(st, e.X)
		r := app(sortInt, "-", v)
		if ii, ok := intInfoOf(x.typeOf(e)); ok && ii.unsigned {
			r = wrapInt(r, ii)
		}
		r.Go = x.typeOf(e)
		return r
	case token.ADD:
		return x.expr(st, e.X)
	case token.AND:
		// &T{...} or &x : a pointer value holding a copy (ownership assumption, see DESIGN 3.3)
		ps := c.sortOf(x.typeOf(e))
		if ps.Kind != KPtr {
			x.unsupported(e, "& producing %s", ps.Name)
		}
		v := x.expr(st, e.X)
		ref := c.fresh("ref", sortInt)
		c.axiom(app(sortBool, ">", ref, tInt(0)))
		if _, isLit := e.X.(*ast.CompositeLit); !isLit {
			x.abstractNote(e, "address-of "+x.exprText(e.X)+" (pointer holds a copy; aliasing not modelled)")
		}
		t := c.mkPtr(ps, ref, v)
		t.Go = x.typeOf(e)
		return t
	case token.XOR:
		v := x.expr(st, e.X)
		if ii, ok := intInfoOf(x.typeOf(e)); ok && ii.unsigned {
			r := app(sortInt, "-", tBig(new(big.Int).Sub(pow2(ii.bits), big.NewInt(1))), v)
			r.Go = x.typeOf(e)
			return r
		}
		r := app(sortInt, "-", app(sortInt, "-", v), tInt(1))
		r.Go = x.typeOf(e)
		return r
	case token.ARROW:
		x.abstractNote(e, "channel receive (havocked)")
		return x.freshOf("recv", x.typeOf(e))
	}
	x.unsupported(e, "unary operator %s", e.Op)
	return Term{}
}

// condBranch evaluates `rhs` under the extra path condition `guard`, keeping what is
// learnt there as an implication.
func (x *Exec) underGuard(st *State, guard Term, f func() Term) Term {
	saved := st.pc
	varsBefore := len(st.vars)
	snapshot := make(map[types.Object]string, len(st.vars))
	for k, v := range st.vars {
		snapshot[k] = v.S
	}
	ghostBefore := make(map[string]Term, len(st.ghost))
	for k, v := range st.ghost {
		ghostBefore[k] = v
	}
	st.pc = x.namePC(tAnd(saved, guard))
	r := f()
	inner := st.pc
	// ghost state updated at an anchor inside a short-circuit operand (a call in `a && f()`) changes only when the
	// operand is evaluated
	for k, v := range st.ghost {
		if old, ok := ghostBefore[k]; ok && old.S != v.S {
			st.ghost[k] = x.c().define("g_"+k, tIte(guard, v, old))
		}
	}
	for k, v := range st.vars {
		if s, ok := snapshot[k]; ok && s != v.S {
			// state changed under a short-circuit operand: merge by ite
			old := Term{S: s, Sort: v.Sort, Go: v.Go}
			st.vars[k] = x.c().define(k.Name(), tIte(guard, v, old))
		}
	}
	_ = varsBefore
	st.pc = x.namePC(tAnd(saved, tImp(guard, inner)))
	return r
}

func (x *Exec) binary(st *State, e *ast.BinaryExpr) Term {
	c := x.c()
	switch e.Op {
	case token.LAND:
		a := x.expr(st, e.X)
		b := x.underGuard(st, a, func() Term { return x.expr(st, e.Y) })
		return tAnd(a, b)
	case token.LOR:
		a := x.expr(st, e.X)
		b := x.underGuard(st, tNot(a), func() Term { return x.expr(st, e.Y) })
		return tOr(a, b)
	}
	// comparisons with nil
	if e.Op == token.EQL || e.Op == token.NEQ {
		if isNilExpr(x.info, e.Y) || isNilExpr(x.info, e.X) {
			other := e.X
			if isNilExpr(x.info, e.X) {
				other = e.Y
			}
			v := x.expr(st, other)
			env := x.specEnv(st)
			r := env.nilCompare(v, e.Op == token.NEQ)
			if v.Sort.Kind == KOpaque {
				// interface / func values: nil-ness is an uninterpreted predicate
				r = c.opaqueIsNil(v)
				if e.Op == token.NEQ {
					r = tNot(r)
				}
			}
			return r
		}
	}
	a := x.expr(st, e.X)
	b := x.expr(st, e.Y)
	rt := x.typeOf(e)
	ot := x.typeOf(e.X)
	switch e.Op {
	case token.EQL, token.NEQ:
		if a.Sort.Name != b.Sort.Name {
			if r, ok := c.recPtrConv(b, a.Sort); ok {
				b = r
			}
		}
		if a.Sort.Name != b.Sort.Name {
			x.unsupported(e, "comparison of %s and %s", a.Sort.Name, b.Sort.Name)
		}
		if a.Sort.Kind == KPtr {
			// pointer identity: compare references (nil-ness and ref id)
			r := tOr(tAnd(c.ptrIsNil(a), c.ptrIsNil(b)), tAnd(tNot(c.ptrIsNil(a)), tNot(c.ptrIsNil(b)), tEq(c.ptrRef(a), c.ptrRef(b))))
			if e.Op == token.NEQ {
				return tNot(r)
			}
			return r
		}
		r := tEq(a, b)
		if e.Op == token.NEQ {
			return tNot(r)
		}
		return r
	case token.LSS, token.LEQ, token.GTR, token.GEQ:
		if a.Sort.Kind == KStr {
			x.u.ensureStrOrder()
			switch e.Op {
			case token.LSS:
				return app(sortBool, "gs.lt", a, b)
			case token.GTR:
				return app(sortBool, "gs.lt", b, a)
			case token.LEQ:
				return tNot(app(sortBool, "gs.lt", b, a))
			default:
				return tNot(app(sortBool, "gs.lt", a, b))
			}
		}
		if a.Sort.Kind != KInt {
			x.abstractNote(e, "ordering on "+a.Sort.Name+" (havocked)")
			return x.c().fresh("cmp", sortBool)
		}
		return app(sortBool, e.Op.String(), a, b)
	}
	if a.Sort.Kind == KStr && e.Op == token.ADD {
		x.u.ensureStrCat()
		return app(sortStr, "gs.cat", a, b)
	}
	if a.Sort.Kind != KInt || b.Sort.Kind != KInt {
		x.abstractNote(e, "arithmetic on "+a.Sort.Name+" (havocked)")
		return x.freshOf("arith", rt)
	}
	r := x.arith(st, e.Op, a, b, rt, ot, e)
	r.Go = rt
	return r
}

func isNilExpr(info *types.Info, e ast.Expr) bool {
	if id, ok := ast.Unparen(e).(*ast.Ident); ok {
		_, isNil := info.Uses[id].(*types.Nil)
		return isNil
	}
	return false
}

func constOf(info *types.Info, e ast.Expr) (*big.Int, bool) {
	if tv, ok := info.Types[e]; ok && tv.Value != nil && tv.Value.Kind() == constant.Int {
		n, ok := new(big.Int).SetString(tv.Value.ExactString(), 10)
		return n, ok
	}
	return nil, false
}

func termConst(t Term) (*big.Int, bool) {
	n, ok := new(big.Int).SetString(t.S, 10)
	return n, ok
}

func (x *Exec) arith(st *State, op token.Token, a, b Term, rt, ot types.Type, n ast.Node) Term {
	ii, isInt := intInfoOf(rt)
	if !isInt {
		ii = intInfo{64, false}
	}
	wrap := func(t Term) Term {
		if ii.unsigned {
			return wrapInt(t, ii)
		}
		if x.ct != nil && x.ct.Options["overflow"] == "check" {
			x.assert(st, rangeFact(t, ii), "ovf", x.exprText(n), n, "no signed overflow in "+x.exprText(n))
		}
		return t
	}
	switch op {
	case token.ADD:
		return wrap(app(sortInt, "+", a, b))
	case token.SUB:
		return wrap(app(sortInt, "-", a, b))
	case token.MUL:
		return wrap(app(sortInt, "*", a, b))
	case token.QUO, token.REM:
		x.assert(st, tNot(tEq(b, tInt(0))), "div0", x.exprText(n), n, "divisor non-zero in "+x.exprText(n))
		if ii.unsigned {
			if op == token.QUO {
				return app(sortInt, "div", a, b)
			}
			return app(sortInt, "mod", a, b)
		}
		if op == token.QUO {
			return app(sortInt, "go.div", a, b)
		}
		return app(sortInt, "go.mod", a, b)
	case token.SHL:
		if k, ok := termConst(b); ok && k.IsInt64() && k.Int64() < 64 {
			return wrap(app(sortInt, "*", a, tBig(pow2(int(k.Int64())))))
		}
	case token.SHR:
		if k, ok := termConst(b); ok && k.IsInt64() && k.Int64() < 64 {
			return app(sortInt, "div", a, tBig(pow2(int(k.Int64()))))
		}
	case token.AND:
		// x & (2^k - 1)  ==  x mod 2^k  for non-negative x
		for _, pr := range [][2]Term{{a, b}, {b, a}} {
			if k, ok := termConst(pr[1]); ok {
				k1 := new(big.Int).Add(k, big.NewInt(1))
				if k1.BitLen() > 0 && new(big.Int).And(k1, k).Sign() == 0 && ii.unsigned {
					return app(sortInt, "mod", pr[0], tBig(k1))
				}
			}
		}
	}
	// uninterpreted bit operation
	fn := "bitop." + sanitize(op.String())
	names := map[token.Token]string{token.AND: "and", token.OR: "or", token.XOR: "xor", token.AND_NOT: "andnot", token.SHL: "shl", token.SHR: "shr"}
	if nm, ok := names[op]; ok {
		fn = "bitop." + nm
	}
	if !x.c().declared[fn] {
		x.c().declared[fn] = true
		x.c().emit(fmt.Sprintf("(declare-fun %s (Int Int) Int)", fn))
	}
	x.abstractNote(n, "bit operation "+op.String()+" as uninterpreted function")
	r := app(sortInt, fn, a, b)
	x.c().axiom(rangeFact(r, ii))
	return r
}

func (x *Exec) index(st *State, e *ast.IndexExpr) Term {
	c := x.c()
	// generic function instantiation f[T]
	if tv, ok := x.info.Types[e.X]; ok {
		if _, isSig := tv.Type.Underlying().(*types.Signature); isSig {
			return x.freshOf("funcval", x.typeOf(e))
		}
	}
	base := x.expr(st, e.X)
	base = x.autoDeref(st, base, e.X) // pointer to array
	switch base.Sort.Kind {
	case KSlice:
		i := x.expr(st, e.Index)
		x.assert(st, tAnd(app(sortBool, "<=", tInt(0), i), app(sortBool, "<", i, c.slLen(base))), "idx", x.exprText(e), e, "index in range: "+x.exprText(e))
		t := c.slAt(base, i)
		t.Go = x.typeOf(e)
		x.assume(st, c.typeFactsQ(t, t.Go, 0, 0))
		return t
	case KStr:
		i := x.expr(st, e.Index)
		x.assert(st, tAnd(app(sortBool, "<=", tInt(0), i), app(sortBool, "<", i, app(sortInt, "gs.len", base))), "idx", x.exprText(e), e, "index in range: "+x.exprText(e))
		t := app(sortInt, "gs.at", base, i)
		t.Go = x.typeOf(e)
		return t
	case KMap:
		k := x.expr(st, e.Index)
		mt, _ := types.Unalias(x.typeOf(e.X)).Underlying().(*types.Map)
		var vt types.Type
		if mt != nil {
			vt = mt.Elem()
		}
		x.assume(st, c.typeFactsQ(c.mapVal(base, k), vt, 1, 0))
		t := tIte(c.mapHas(base, k), c.mapVal(base, k), c.zero(base.Sort.Elem, vt))
		t.Go = vt
		return t
	}
	x.unsupported(e, "index of %s", base.Sort.Name)
	return Term{}
}

func (x *Exec) sliceExpr(st *State, e *ast.SliceExpr) Term {
	c := x.c()
	base := x.expr(st, e.X)
	base = x.autoDeref(st, base, e.X)
	lo := tInt(0)
	if e.Low != nil {
		lo = x.expr(st, e.Low)
	}
	var ln Term
	switch base.Sort.Kind {
	case KSlice:
		ln = c.slLen(base)
	case KStr:
		ln = app(sortInt, "gs.len", base)
	default:
		x.unsupported(e, "slice of %s", base.Sort.Name)
	}
	hi := ln
	if e.High != nil {
		hi = x.expr(st, e.High)
	}
	if e.Max != nil {
		x.expr(st, e.Max)
	}
	// Go allows hi up to cap for slices; we require hi <= len unless hi is the constant 0.. (stricter, sound for no-panic)
	x.assert(st, tAnd(app(sortBool, "<=", tInt(0), lo), app(sortBool, "<=", lo, hi), app(sortBool, "<=", hi, ln)), "idx", x.exprText(e), e, "slice bounds: "+x.exprText(e))
	if lo.S == "0" && hi.S == ln.S {
		return base
	}
	t := x.u.subSeq(base, lo, hi)
	t.Go = x.typeOf(e)
	return t
}

func (x *Exec) composite(st *State, e *ast.CompositeLit) Term {
	c := x.c()
	gt := x.typeOf(e)
	s := c.sortOf(gt)
	switch u := types.Unalias(gt).Underlying().(type) {
	case *types.Struct:
		if s.Kind != KStruct {
			x.unsupported(e, "composite literal of %s", s.Name)
		}
		vals := make([]Term, len(s.Fields))
		for i, f := range s.Fields {
			vals[i] = c.zero(f.Sort, f.Go)
		}
		for i, el := range e.Elts {
			if kv, ok := el.(*ast.KeyValueExpr); ok {
				name := kv.Key.(*ast.Ident).Name
				found := false
				for j, f := range s.Fields {
					if f.Name == name {
						vals[j] = x.coerce(x.expr(st, kv.Value), f.Sort)
						found = true
					}
				}
				if !found {
					x.unsupported(e, "unknown field %s", name)
				}
			} else {
				vals[i] = x.coerce(x.expr(st, el), s.Fields[i].Sort)
			}
		}
		_ = u
		if len(vals) == 0 {
			return Term{S: s.Ctor, Sort: s, Go: gt}
		}
		t := app(s, s.Ctor, vals...)
		t.Go = gt
		return c.define("lit", t)
	case *types.Slice, *types.Array:
		arr := c.fresh("litarr", c.arrSort(sortInt, s.Elem))
		if _, isArr := u.(*types.Array); isArr {
			arr = c.constArr(arr.Sort, c.zero(s.Elem, nil))
		}
		n := int64(0)
		for _, el := range e.Elts {
			if kv, ok := el.(*ast.KeyValueExpr); ok {
				k, okc := constOf(x.info, kv.Key)
				if !okc {
					x.unsupported(e, "non-constant key in slice literal")
				}
				n = k.Int64()
				el = kv.Value
			}
			arr = app(arr.Sort, "store", arr, tInt(n), x.coerce(x.exprOrLit(st, el, s.Elem), s.Elem))
			n++
		}
		ln := tInt(n)
		if a, isArr := u.(*types.Array); isArr {
			ln = tInt(a.Len())
		}
		t := c.mkSlice(s, ln, arr)
		t.Go = gt
		return c.define("lit", t)
	case *types.Map:
		m := x.emptyMap(s)
		for _, el := range e.Elts {
			kv := el.(*ast.KeyValueExpr)
			k := x.exprOrLit(st, kv.Key, s.Key)
			v := x.coerce(x.exprOrLit(st, kv.Value, s.Elem), s.Elem)
			m = x.mapStore(m, k, v)
		}
		m.Go = gt
		return m
	}
	x.unsupported(e, "composite literal of type %s", gt)
	return Term{}
}

// exprOrLit handles elided types in nested composite literals.
func (x *Exec) exprOrLit(st *State, e ast.Expr, want *Sort) Term {
	return x.expr(st, e)
}

func (x *Exec) coerce(t Term, want *Sort) Term {
	if t.Sort.Name == want.Name {
		return t
	}
	if t.Sort.Kind == KOpaque && strings.HasPrefix(t.Sort.Name, "O_nil") {
		return x.c().zero(want, nil)
	}
	if r, ok := x.c().recPtrConv(t, want); ok {
		return r
	}
	if want.Kind == KMap && t.Sort.Kind == KMap && want.Name != t.Sort.Name && want.Key.Name == t.Sort.Key.Name {
		// map[K]*T assigned to a field whose element type is the cut view of the recursive type T (or back): same domain,
		// same cardinality, values converted pointwise
		c := x.c()
		probe := Term{S: "k!m", Sort: t.Sort.Key}
		if conv, ok := c.recPtrConv(app(t.Sort.Elem, "select", c.mapVals(t), probe), want.Elem); ok {
			r := c.fresh("mapconv", want)
			c.axiom(tEq(c.mapDom(r), c.mapDom(t)))
			c.axiom(tEq(c.mapCard(r), c.mapCard(t)))
			c.axiom(tEq(c.mapNil(r), c.mapNil(t)))
			c.axiom(Term{S: fmt.Sprintf("(forall ((k!m %s)) (! (= (select %s k!m) %s) :pattern ((select %s k!m))))", t.Sort.Key.Name, c.mapVals(r).S, conv.S, c.mapVals(r).S), Sort: sortBool})
			r.Go = t.Go
			return r
		}
	}
	if want.Kind == KErr && t.Sort.Kind != KErr {
		// concrete value converted to error interface: fresh non-nil error determined by the value
		r := x.c().fresh("errval", sortErr)
		x.c().axiom(tNot(tEq(r, Term{S: "err.nil", Sort: sortErr})))
		return r
	}
	if want.Kind == KOpaque && t.Sort.Kind != KOpaque {
		// value converted to an interface: injection with a partial inverse (type assertions)
		box, _, _ := x.c().boxFns(t.Sort, want)
		return app(want, box, t)
	}
	if t.Sort.Kind == KOpaque && strings.HasPrefix(t.Sort.Name, "O_nil") {
		return x.c().zero(want, nil)
	}
	return t
}

func (x *Exec) emptyMap(s *Sort) Term {
	c := x.c()
	dom := Term{S: fmt.Sprintf("((as const (Array %s Bool)) false)", s.Key.Name), Sort: c.setSort(s.Key)}
	vals := c.fresh("mapvals", c.arrSort(s.Key, s.Elem))
	return c.mkMap(s, dom, vals, tInt(0), tFalse)
}

func (x *Exec) mapStore(m, k, v Term) Term {
	c := x.c()
	if m.Sort.Elem != nil && v.Sort != nil && v.Sort.Name != m.Sort.Elem.Name {
		if r, ok := c.recPtrConv(v, m.Sort.Elem); ok {
			v = r // a *T stored into a map whose element type is the cut view of the recursive type T
		}
	}
	has := c.mapHas(m, k)
	card := tIte(has, c.mapCard(m), app(sortInt, "+", c.mapCard(m), tInt(1)))
	r := c.mkMap(m.Sort, app(c.setSort(m.Sort.Key), "store", c.mapDom(m), k, tTrue), app(c.arrSort(m.Sort.Key, m.Sort.Elem), "store", c.mapVals(m), k, v), card, tFalse)
	r.Go = m.Go
	return c.define("map", r)
}

func (x *Exec) mapDelete(m, k Term) Term {
	c := x.c()
	has := c.mapHas(m, k)
	card := tIte(has, app(sortInt, "-", c.mapCard(m), tInt(1)), c.mapCard(m))
	r := c.mkMap(m.Sort, app(c.setSort(m.Sort.Key), "store", c.mapDom(m), k, tFalse), c.mapVals(m), card, c.mapNil(m))
	r.Go = m.Go
	return c.define("map", r)
}

// conversion T(x)
func (x *Exec) convert(st *State, call *ast.CallExpr) Term {
	c := x.c()
	to := x.typeOf(call)
	arg := call.Args[0]
	// T(nil) for a slice, map or pointer type T is T's zero value
	if id, ok := ast.Unparen(arg).(*ast.Ident); ok && id.Name == "nil" {
		if _, isNil := x.info.Uses[id].(*types.Nil); isNil {
			switch types.Unalias(to).Underlying().(type) {
			case *types.Slice, *types.Map, *types.Pointer:
				return c.zero(c.sortOf(to), to)
			}
		}
	}
	v := x.expr(st, arg)
	from := x.typeOf(arg)
	ts := c.sortOf(to)
	if ii, ok := intInfoOf(to); ok && v.Sort.Kind == KInt {
		fi, fok := intInfoOf(from)
		var r Term
		switch {
		case fok && fi.unsigned == ii.unsigned && fi.bits <= ii.bits:
			r = v
		case fok && fi.unsigned && !ii.unsigned && fi.bits < ii.bits:
			r = v
		default:
			r = wrapInt(v, ii)
		}
		r.Go = to
		return r
	}
	if v.Sort.Name == ts.Name {
		v.Go = to
		return v
	}
	if ts.Kind == KErr || ts.Kind == KOpaque {
		return x.coerce(v, ts)
	}
	x.abstractNote(call, fmt.Sprintf("conversion %s -> %s (havocked)", from, to))
	return x.freshOf("conv", to)
}

// typeAssert models x.(T) for a concrete T through the box/unbox functions of (sort(T), sort(x)).
func (x *Exec) typeAssert(st *State, e *ast.TypeAssertExpr) (Term, Term) {
	c := x.c()
	v := x.expr(st, e.X)
	tt := x.typeOf(e.Type)
	ts := c.sortOf(tt)
	if v.Sort.Kind != KOpaque || ts.Kind == KOpaque {
		x.abstractNote(e, "type assertion to an interface type (havocked)")
		return x.freshOf("typeassert", tt), c.fresh("ok", sortBool)
	}
	_, unbox, is := c.boxFns(ts, v.Sort)
	r := app(ts, unbox, v)
	r.Go = tt
	return r, app(sortBool, is, v)
}
