package main

// Translation of spec expressions (SX) to SMT terms.

import (
	"fmt"
	"go/ast"
	"go/constant"
	"go/parser"
	"go/token"
	"go/types"
	"math/big"
	"strings"

	"golang.org/x/tools/go/packages"
)

// Unit is one verification unit: a function body or a lemma, with its own SMT context.
type Unit struct {
	c       *Ctx
	pkg     *packages.Package
	cs      *ContractSet
	defined map[string]bool // spec functions already emitted
	axiomsEmitted bool
	goFns   map[string]bool
	world   *World
}

type Env struct {
	u      *Unit
	vars   map[string]Term
	parent *Env
	old    *Env
	lookup func(string) (Term, bool)
}

func (e *Env) child() *Env { return &Env{u: e.u, vars: map[string]Term{}, parent: e, old: e.old, lookup: nil} }

func (e *Env) get(name string) (Term, bool) {
	for x := e; x != nil; x = x.parent {
		if t, ok := x.vars[name]; ok {
			return t, true
		}
		if x.lookup != nil {
			if t, ok := x.lookup(name); ok {
				return t, true
			}
		}
	}
	return Term{}, false
}

func (e *Env) oldEnv() *Env {
	for x := e; x != nil; x = x.parent {
		if x.old != nil {
			return x.old
		}
	}
	return nil
}

type specErr struct{ msg string }

func (s specErr) Error() string { return s.msg }

func sfail(format string, a ...any) { panic(specErr{fmt.Sprintf(format, a...)}) }

// sortOfTypeStr resolves a type written in a contract.
func (u *Unit) sortOfTypeStr(ts string) (*Sort, types.Type) {
	ts = strings.TrimSpace(ts)
	switch {
	case ts == "mathint":
		return sortInt, nil
	case strings.HasPrefix(ts, "set[") && strings.HasSuffix(ts, "]"):
		es, _ := u.sortOfTypeStr(ts[4 : len(ts)-1])
		return u.c.setSort(es), nil
	case strings.HasPrefix(ts, "seq[") && strings.HasSuffix(ts, "]"):
		es, _ := u.sortOfTypeStr(ts[4 : len(ts)-1])
		return u.c.sliceSort(es), nil
	case strings.HasPrefix(ts, "total["):
		// total[K]V : total map (SMT array)
		inner := ts[6:]
		depth := 1
		i := 0
		for ; i < len(inner); i++ {
			if inner[i] == '[' {
				depth++
			}
			if inner[i] == ']' {
				depth--
				if depth == 0 {
					break
				}
			}
		}
		ks, _ := u.sortOfTypeStr(inner[:i])
		vs, _ := u.sortOfTypeStr(inner[i+1:])
		return u.c.arrSort(ks, vs), nil
	}
	if ts == "int" {
		return sortInt, nil // spec ints are mathematical
	}
	ex, err := parser.ParseExpr(ts)
	if err != nil {
		sfail("cannot parse type %q: %v", ts, err)
	}
	gt := u.resolveType(ex)
	if gt == nil {
		tv, err := types.Eval(u.pkg.Fset, u.pkg.Types, token.NoPos, ts)
		if err != nil {
			sfail("cannot resolve type %q: %v", ts, err)
		}
		gt = tv.Type
	}
	return u.c.sortOf(gt), gt
}

func (u *Unit) ensureAxioms() {
	if u.axiomsEmitted {
		return
	}
	u.axiomsEmitted = true
	for _, ax := range u.cs.Axioms {
		env := &Env{u: u, vars: map[string]Term{}}
		t := env.eval(ax.Expr)
		u.c.emit("; axiom " + ax.Name)
		u.c.axiom(t)
		u.c.note("axiom (trusted): " + ax.Name + ": " + ax.Expr.Raw)
	}
}

// ensureSpecFunc emits the SMT definition of a spec function on first use.
func (u *Unit) ensureSpecFunc(name string) *SpecFunc {
	sf := u.cs.SpecFuncs[name]
	if sf == nil && u.world != nil && u.world.std != nil {
		sf = u.world.std.SpecFuncs[name]
	}
	if sf == nil {
		return nil
	}
	if u.defined[name] {
		return sf
	}
	u.defined[name] = true
	env := &Env{u: u, vars: map[string]Term{}}
	var ps []string
	var guards []Term
	for _, p := range sf.Params {
		s, gt := u.sortOfTypeStr(p.Type)
		v := Term{S: "p." + p.Name, Sort: s, Go: gt}
		env.vars[p.Name] = v
		ps = append(ps, fmt.Sprintf("(%s %s)", v.S, s.Name))
		_ = guards
	}
	rs, _ := u.sortOfTypeStr(sf.Result)
	if sf.Body == nil {
		var ss []string
		for _, p := range sf.Params {
			s, _ := u.sortOfTypeStr(p.Type)
			ss = append(ss, s.Name)
		}
		u.c.emit(fmt.Sprintf("(declare-fun %s (%s) %s)", "sf."+name, strings.Join(ss, " "), rs.Name))
		return sf
	}
	recursive := mentions(sf.Body, name)
	// evaluate the body; nested spec functions are emitted first (their definitions precede ours)
	body := env.eval(sf.Body)
	if body.Sort != rs && !(body.Sort.Name == rs.Name) {
		sfail("spec function %s: body sort %s, declared %s", name, body.Sort.Name, rs.Name)
	}
	if (sf.Opaque || (hasQuant(sf.Body) && !sf.Macro)) && !recursive {
		// declared symbol + definitional axiom triggered on applications (usable as an E-matching trigger)
		var ss, as []string
		for _, p := range sf.Params {
			s, _ := u.sortOfTypeStr(p.Type)
			ss = append(ss, s.Name)
			as = append(as, "p."+p.Name)
		}
		u.c.emit(fmt.Sprintf("(declare-fun %s (%s) %s)", "sf."+name, strings.Join(ss, " "), rs.Name))
		if len(as) == 0 {
			u.c.emit(fmt.Sprintf("(assert (= sf.%s %s))", name, body.S))
			return sf
		}
		appl := "(sf." + name + " " + strings.Join(as, " ") + ")"
		u.c.emit(fmt.Sprintf("(assert (forall (%s) (! (= %s %s) :pattern (%s))))", strings.Join(ps, " "), appl, body.S, appl))
		return sf
	}
	kw := "define-fun"
	if recursive {
		kw = "define-fun-rec"
	}
	u.c.emit(fmt.Sprintf("(%s %s (%s) %s %s)", kw, "sf."+name, strings.Join(ps, " "), rs.Name, body.S))
	return sf
}

func mentions(e *SX, name string) bool {
	if e == nil {
		return false
	}
	if e.Op == "call" && e.Name == name {
		return true
	}
	for _, a := range e.Args {
		if mentions(a, name) {
			return true
		}
	}
	return false
}

func parseNum(s string) *big.Int {
	n := new(big.Int)
	if _, ok := n.SetString(s, 0); !ok {
		sfail("bad number %q", s)
	}
	return n
}

func (u *Unit) constTerm(v constant.Value, gt types.Type) (Term, bool) {
	switch v.Kind() {
	case constant.Int:
		n, _ := new(big.Int).SetString(v.ExactString(), 10)
		t := tBig(n)
		t.Go = gt
		return t, true
	case constant.Bool:
		return tBoolLit(constant.BoolVal(v)), true
	case constant.String:
		return u.c.strLit(constant.StringVal(v)), true
	}
	return Term{}, false
}

func (env *Env) evalBool(e *SX) Term {
	t := env.eval(e)
	if t.Sort.Kind != KBool {
		sfail("expected bool, got %s in %q", t.Sort.Name, e.Raw)
	}
	return t
}

func (env *Env) eval(e *SX) Term {
	u := env.u
	c := u.c
	switch e.Op {
	case "num":
		return tBig(parseNum(e.Name))
	case "str":
		return c.strLit(e.Name)
	case "bool":
		return tBoolLit(e.Name == "true")
	case "nil":
		sfail("nil is only supported in comparisons")
	case "ident":
		if t, ok := env.get(e.Name); ok {
			return t
		}
		if e.Name == "result" {
			if t, ok := env.get("r0"); ok {
				return t
			}
		}
		// package-level object
		if obj := u.pkg.Types.Scope().Lookup(e.Name); obj != nil {
			switch o := obj.(type) {
			case *types.Const:
				if t, ok := u.constTerm(o.Val(), o.Type()); ok {
					return t
				}
			case *types.Var:
				return c.global(o)
			}
		}
		if sf := u.ensureSpecFunc(e.Name); sf != nil && len(sf.Params) == 0 {
			rs, _ := u.sortOfTypeStr(sf.Result)
			return Term{S: "sf." + e.Name, Sort: rs}
		}
		sfail("unknown identifier %q", e.Name)
	case "old":
		o := env.oldEnv()
		if o == nil {
			sfail("old() not available here")
		}
		return o.eval(e.Args[0])
	case "ite":
		cnd := env.evalBool(e.Args[0])
		a := env.eval(e.Args[1])
		b := env.eval(e.Args[2])
		return tIte(cnd, a, b)
	case "setof":
		// setof k T :: P(k)  -- a fresh set constant S with  forall k. S[k] <=> (wellTyped(k) && P(k))
		ch := env.child()
		if len(e.Binders) != 1 {
			sfail("setof takes exactly one binder")
		}
		b := e.Binders[0]
		bs, gt := u.sortOfTypeStr(b.Type)
		v := Term{S: c.freshName("q." + b.Name), Sort: bs, Go: gt}
		ch.vars[b.Name] = v
		body := ch.evalBool(e.Args[0])
		if gt != nil && b.Type != "int" {
			body = tAnd(c.typeFacts(v, gt, 0), body)
		}
		set := c.fresh("setof", c.setSort(bs))
		pats := fmt.Sprintf(":pattern ((select %s %s))", set.S, v.S)
		// alternative triggers: applications of opaque spec functions that take the bound variable directly
		var walk func(n *SX)
		seen := map[string]bool{}
		walk = func(n *SX) {
			if n == nil {
				return
			}
			if n.Op == "call" {
				if sf := u.cs.SpecFuncs[n.Name]; sf != nil && (sf.Opaque || sf.Body == nil) {
					direct := false
					for _, a := range n.Args[1:] {
						if a.Op == "ident" && a.Name == b.Name {
							direct = true
						}
					}
					if direct {
						t := ch.eval(n)
						if !seen[t.S] {
							seen[t.S] = true
							pats += fmt.Sprintf(" :pattern (%s)", t.S)
						}
					}
				}
			}
			for _, a := range n.Args {
				walk(a)
			}
		}
		walk(e.Args[0])
		c.axiom(Term{S: fmt.Sprintf("(forall ((%s %s)) (! (= (select %s %s) %s) %s))", v.S, bs.Name, set.S, v.S, body.S, pats), Sort: sortBool})
		return set
	case "forall", "exists":
		ch := env.child()
		var bs []string
		var guards []Term
		for _, b := range e.Binders {
			s, gt := u.sortOfTypeStr(b.Type)
			v := Term{S: "q." + b.Name, Sort: s, Go: gt}
			// avoid capture of an outer binder with the same name
			if _, clash := env.get(b.Name); clash {
				v.S = c.freshName("q." + b.Name)
			}
			ch.vars[b.Name] = v
			bs = append(bs, fmt.Sprintf("(%s %s)", v.S, s.Name))
			if gt != nil && b.Type != "int" {
				if f := c.typeFacts(v, gt, 3); f.S != "true" {
					guards = append(guards, f)
				}
			}
		}
		body := ch.evalBool(e.Args[0])
		if e.Op == "forall" {
			body = tImp(tAnd(guards...), body)
		} else {
			body = tAnd(append(guards, body)...)
		}
		return Term{S: fmt.Sprintf("(%s (%s) %s)", e.Op, strings.Join(bs, " "), body.S), Sort: sortBool}
	case "un":
		a := env.eval(e.Args[0])
		if e.Name == "!" {
			return tNot(a)
		}
		return app(sortInt, "-", a)
	case "bin":
		return env.evalBin(e)
	case "field":
		// package-qualified constant?
		if b := e.Args[0]; b.Op == "ident" {
			if _, shadow := env.get(b.Name); !shadow {
				if t, ok := u.qualified(b.Name, e.Name); ok {
					return t
				}
			}
		}
		base := env.eval(e.Args[0])
		return u.fieldOf(base, e.Name)
	case "index":
		base := env.eval(e.Args[0])
		idx := env.eval(e.Args[1])
		if base.Sort.Kind == KPtr {
			base = c.ptrVal(base)
		}
		switch base.Sort.Kind {
		case KSlice:
			return c.slAt(base, idx)
		case KMap:
			return c.mapVal(base, idx)
		case KSet:
			return app(sortBool, "select", base, idx)
		case KArr:
			return app(base.Sort.Elem, "select", base, idx)
		case KStr:
			return app(sortInt, "gs.at", base, idx)
		}
		sfail("cannot index %s", base.Sort.Name)
	case "slice":
		base := env.eval(e.Args[0])
		lo := tInt(0)
		if e.Args[1] != nil {
			lo = env.eval(e.Args[1])
		}
		var hi Term
		if e.Args[2] != nil {
			hi = env.eval(e.Args[2])
		} else if base.Sort.Kind == KSlice {
			hi = c.slLen(base)
		} else {
			hi = app(sortInt, "gs.len", base)
		}
		return u.subSeq(base, lo, hi)
	case "call":
		return env.evalCall(e)
	}
	sfail("unsupported spec expression %q (%s)", e.Raw, e.Op)
	return Term{}
}

func (u *Unit) qualified(pkgName, name string) (Term, bool) {
	for _, imp := range u.pkg.Types.Imports() {
		if imp.Name() == pkgName {
			if obj := imp.Scope().Lookup(name); obj != nil {
				switch o := obj.(type) {
				case *types.Const:
					return u.constTerm(o.Val(), o.Type())
				case *types.Var:
					return u.c.global(o), true
				}
			}
		}
	}
	// the package itself (contracts may qualify by own name) or any loaded package
	if u.pkg.Types.Name() == pkgName {
		if obj := u.pkg.Types.Scope().Lookup(name); obj != nil {
			if o, ok := obj.(*types.Const); ok {
				return u.constTerm(o.Val(), o.Type())
			}
			if o, ok := obj.(*types.Var); ok {
				return u.c.global(o), true
			}
		}
	}
	return Term{}, false
}

func (u *Unit) fieldOf(base Term, name string) Term {
	c := u.c
	if base.Sort.Kind == KPtr {
		base = c.ptrVal(c.recFull(base))
	}
	switch base.Sort.Kind {
	case KStruct:
		if f := base.Sort.field(name); f != nil {
			t := app(f.Sort, f.Sel, base)
			t.Go = f.Go
			return t
		}
		// promoted field through an embedded struct
		for _, f := range base.Sort.Fields {
			if f.Sort.Kind == KStruct && f.Sort.field(name) != nil {
				return u.fieldOf(app(f.Sort, f.Sel, base), name)
			}
		}
	case KMap:
		switch name {
		case "card":
			return c.mapCard(base)
		case "dom":
			return c.mapDom(base)
		}
	case KSlice:
		if name == "len" {
			return c.slLen(base)
		}
	}
	sfail("no field %s in %s", name, base.Sort.Name)
	return Term{}
}

// subSeq returns the sub-slice s[lo:hi] as a fresh-function application with defining axioms.
func (u *Unit) subSeq(s, lo, hi Term) Term {
	c := u.c
	switch s.Sort.Kind {
	case KSlice:
		fn := "sub." + s.Sort.Name
		if !c.declared[fn] {
			c.declared[fn] = true
			n := s.Sort.Name
			c.emit(fmt.Sprintf("(declare-fun %s (%s Int Int) %s)", fn, n, n))
			c.emit(fmt.Sprintf("(assert (forall ((s %s) (a Int) (b Int)) (! (= (%s.len (%s s a b)) (- b a)) :pattern ((%s s a b)))))", n, n, fn, fn))
			c.emit(fmt.Sprintf("(assert (forall ((s %s) (a Int) (b Int) (j Int)) (! (=> (and (<= 0 j) (< j (- b a))) (= (select (%s.arr (%s s a b)) j) (select (%s.arr s) (+ a j)))) :pattern ((select (%s.arr (%s s a b)) j)))))", n, n, fn, n, n, fn))
		}
		return app(s.Sort, fn, s, lo, hi)
	case KStr:
		u.ensureStrSub()
		return app(sortStr, "gs.sub", s, lo, hi)
	}
	sfail("cannot slice %s", s.Sort.Name)
	return Term{}
}

func (u *Unit) ensureStrSub() {
	c := u.c
	if c.declared["gs.sub"] {
		return
	}
	c.declared["gs.sub"] = true
	c.emit("(declare-fun gs.sub (Str Int Int) Str)")
	c.emit("(assert (forall ((s Str) (a Int) (b Int)) (! (=> (<= a b) (= (gs.len (gs.sub s a b)) (- b a))) :pattern ((gs.sub s a b)))))")
	c.emit("(assert (forall ((s Str) (a Int) (b Int) (j Int)) (! (=> (and (<= 0 j) (< j (- b a))) (= (gs.at (gs.sub s a b) j) (gs.at s (+ a j)))) :pattern ((gs.at (gs.sub s a b) j)))))")
	c.emit("(assert (forall ((s Str)) (! (= (gs.sub s 0 (gs.len s)) s) :pattern ((gs.sub s 0 (gs.len s))))))")
}

func (u *Unit) ensureStrCat() {
	c := u.c
	if c.declared["gs.cat"] {
		return
	}
	c.declared["gs.cat"] = true
	c.emit("(declare-fun gs.cat (Str Str) Str)")
	c.emit("(assert (forall ((a Str) (b Str)) (! (= (gs.len (gs.cat a b)) (+ (gs.len a) (gs.len b))) :pattern ((gs.cat a b)))))")
	c.emit("(assert (forall ((a Str) (b Str) (j Int)) (! (= (gs.at (gs.cat a b) j) (ite (< j (gs.len a)) (gs.at a j) (gs.at b (- j (gs.len a))))) :pattern ((gs.at (gs.cat a b) j)))))")
}

func (env *Env) nilCompare(x Term, neg bool) Term {
	c := env.u.c
	var r Term
	switch x.Sort.Kind {
	case KErr:
		r = tEq(x, Term{S: "err.nil", Sort: sortErr})
	case KPtr:
		r = c.ptrIsNil(x)
	case KMap:
		r = c.mapNil(x)
	case KSlice:
		r = env.u.sliceIsNil(x)
	case KOpaque:
		r = c.opaqueIsNil(x)
	default:
		z := c.zero(x.Sort, nil)
		r = tEq(x, z)
	}
	if neg {
		return tNot(r)
	}
	return r
}

// sliceIsNil: nil-ness of slices is an uninterpreted predicate implying length 0.
func (u *Unit) sliceIsNil(x Term) Term {
	c := u.c
	fn := "isnil." + x.Sort.Name
	if !c.declared[fn] {
		c.declared[fn] = true
		c.emit(fmt.Sprintf("(declare-fun %s (%s) Bool)", fn, x.Sort.Name))
		c.emit(fmt.Sprintf("(assert (forall ((s %s)) (! (=> (%s s) (= (%s.len s) 0)) :pattern ((%s s)))))", x.Sort.Name, fn, x.Sort.Name, fn))
	}
	return app(sortBool, fn, x)
}

func (env *Env) evalBin(e *SX) Term {
	op := e.Name
	c := env.u.c
	switch op {
	case "&&":
		return tAnd(env.evalBool(e.Args[0]), env.evalBool(e.Args[1]))
	case "||":
		return tOr(env.evalBool(e.Args[0]), env.evalBool(e.Args[1]))
	case "==>":
		return tImp(env.evalBool(e.Args[0]), env.evalBool(e.Args[1]))
	case "<==>":
		return tEq(env.evalBool(e.Args[0]), env.evalBool(e.Args[1]))
	case "==", "!=":
		if e.Args[1].Op == "nil" {
			return env.nilCompare(env.eval(e.Args[0]), op == "!=")
		}
		if e.Args[0].Op == "nil" {
			return env.nilCompare(env.eval(e.Args[1]), op == "!=")
		}
		a := env.eval(e.Args[0])
		b := env.eval(e.Args[1])
		if a.Sort.Name != b.Sort.Name {
			if r, ok := env.u.c.recPtrConv(b, a.Sort); ok {
				b = r
			}
		}
		if a.Sort.Name != b.Sort.Name {
			sfail("sort mismatch in %q: %s vs %s", e.Raw, a.Sort.Name, b.Sort.Name)
		}
		var r Term
		if a.Sort.Kind == KSlice {
			r = env.u.seqEq(a, b)
		} else {
			r = tEq(a, b)
		}
		if op == "!=" {
			return tNot(r)
		}
		return r
	}
	a := env.eval(e.Args[0])
	b := env.eval(e.Args[1])
	if a.Sort.Kind == KStr && b.Sort.Kind == KStr && (op == "<" || op == "<=" || op == ">" || op == ">=") {
		env.u.ensureStrOrder()
		switch op {
		case "<":
			return app(sortBool, "gs.lt", a, b)
		case ">":
			return app(sortBool, "gs.lt", b, a)
		case "<=":
			return tNot(app(sortBool, "gs.lt", b, a))
		default:
			return tNot(app(sortBool, "gs.lt", a, b))
		}
	}
	if a.Sort.Kind == KStr && op == "+" {
		env.u.ensureStrCat()
		return app(sortStr, "gs.cat", a, b)
	}
	if a.Sort.Kind == KStruct && a.Sort.Name == "Time" {
		a = app(sortInt, "Time.ns", a)
	}
	if b.Sort.Kind == KStruct && b.Sort.Name == "Time" {
		b = app(sortInt, "Time.ns", b)
	}
	if a.Sort.Kind != KInt || b.Sort.Kind != KInt {
		sfail("arithmetic on non-integers in %q (%s %s %s)", e.Raw, a.Sort.Name, op, b.Sort.Name)
	}
	_ = c
	switch op {
	case "<", "<=", ">", ">=":
		return app(sortBool, op, a, b)
	case "+", "-", "*":
		return app(sortInt, op, a, b)
	case "/":
		return app(sortInt, "div", a, b)
	case "%":
		return app(sortInt, "mod", a, b)
	}
	sfail("unsupported operator %s", op)
	return Term{}
}

func (u *Unit) ensureStrOrder() {
	c := u.c
	if c.declared["gs.order"] {
		return
	}
	c.declared["gs.order"] = true
	c.emit("(assert (forall ((a Str)) (! (not (gs.lt a a)) :pattern ((gs.lt a a)))))")
	c.emit("(assert (forall ((a Str) (b Str) (c Str)) (! (=> (and (gs.lt a b) (gs.lt b c)) (gs.lt a c)) :pattern ((gs.lt a b) (gs.lt b c)))))")
	c.emit("(assert (forall ((a Str) (b Str)) (! (or (gs.lt a b) (gs.lt b a) (= a b)) :pattern ((gs.lt a b)))))")
	c.emit("(assert (forall ((a Str) (b Str)) (! (not (and (gs.lt a b) (gs.lt b a))) :pattern ((gs.lt a b)))))")
}

func (u *Unit) seqEq(a, b Term) Term {
	c := u.c
	fn := "seqeq." + a.Sort.Name
	if !c.declared[fn] {
		c.declared[fn] = true
		n := a.Sort.Name
		c.emit(fmt.Sprintf("(define-fun %s ((a %s) (b %s)) Bool (and (= (%s.len a) (%s.len b)) (forall ((j Int)) (=> (and (<= 0 j) (< j (%s.len a))) (= (select (%s.arr a) j) (select (%s.arr b) j))))))", fn, n, n, n, n, n, n, n))
	}
	return app(sortBool, fn, a, b)
}

func (env *Env) evalCall(e *SX) Term {
	u := env.u
	c := u.c
	args := e.Args[1:]
	ev := func(i int) Term { return env.eval(args[i]) }
	switch e.Name {
	case "len":
		x := ev(0)
		if x.Sort.Kind == KPtr {
			x = c.ptrVal(x)
		}
		switch x.Sort.Kind {
		case KSlice:
			return c.slLen(x)
		case KMap:
			return c.mapCard(x)
		case KStr:
			return app(sortInt, "gs.len", x)
		}
		sfail("len of %s", x.Sort.Name)
	case "in", "has":
		k, m := ev(0), ev(1)
		if e.Name == "has" {
			k, m = m, k
		}
		if m.Sort.Kind == KPtr {
			m = c.ptrVal(m)
		}
		switch m.Sort.Kind {
		case KMap:
			return c.mapHas(m, k)
		case KSet:
			return app(sortBool, "select", m, k)
		}
		sfail("in: not a map or set: %s", m.Sort.Name)
	case "get":
		// get(m, k): Go's m[k] (the zero value when the key is absent)
		m, k := ev(0), ev(1)
		if m.Sort.Kind != KMap {
			sfail("get: not a map")
		}
		var vt types.Type
		if m.Go != nil {
			if mt, ok := types.Unalias(m.Go).Underlying().(*types.Map); ok {
				vt = mt.Elem()
			}
		}
		return tIte(c.mapHas(m, k), c.mapVal(m, k), c.zero(m.Sort.Elem, vt))
	case "dom":
		return c.mapDom(ev(0))
	case "card":
		return c.mapCard(ev(0))
	case "astype":
		// astype(x, "T"): the concrete value of type T held by the interface value x
		xv := ev(0)
		if args[1].Op != "str" {
			sfail("astype expects a type in a string literal")
		}
		ts, gt := u.sortOfTypeStr(args[1].Name)
		_, unbox, _ := c.boxFns(ts, xv.Sort)
		r := app(ts, unbox, xv)
		r.Go = gt
		return r
	case "istype":
		xv := ev(0)
		ts, _ := u.sortOfTypeStr(args[1].Name)
		_, _, is := c.boxFns(ts, xv.Sort)
		return app(sortBool, is, xv)
	case "sameptr":
		// sameptr(a, b): Go's pointer identity (both nil, or the same reference); `==` on pointers in a contract compares
		// the pointed-to values as well
		a, b := ev(0), ev(1)
		if a.Sort.Name != b.Sort.Name {
			if r, ok := c.recPtrConv(b, a.Sort); ok {
				b = r
			}
		}
		if a.Sort.Kind != KPtr || a.Sort.Name != b.Sort.Name {
			sfail("sameptr expects two pointers of the same type")
		}
		return tOr(tAnd(c.ptrIsNil(a), c.ptrIsNil(b)), tAnd(tNot(c.ptrIsNil(a)), tNot(c.ptrIsNil(b)), tEq(c.ptrRef(a), c.ptrRef(b))))
	case "sortpos":
		// sortpos(a, b, i): position in b of the element a[i], where one of a, b is the sorted permutation of the other
		a, b, i := ev(0), ev(1), ev(2)
		return app(sortInt, c.sortwFn(a.Sort), c.slArr(a), c.slArr(b), i)
	case "same":
		// native (term-level) equality, also for slices
		a, b := ev(0), ev(1)
		if a.Sort.Name != b.Sort.Name {
			if r, ok := c.recPtrConv(b, a.Sort); ok {
				b = r
			} else {
				sfail("sort mismatch in same(): %s vs %s", a.Sort.Name, b.Sort.Name)
			}
		}
		return tEq(a, b)
	case "isnil":
		return env.nilCompare(ev(0), false)
	case "min":
		a, b := ev(0), ev(1)
		return tIte(app(sortBool, "<=", a, b), a, b)
	case "max":
		a, b := ev(0), ev(1)
		return tIte(app(sortBool, ">=", a, b), a, b)
	case "abs":
		a := ev(0)
		return tIte(app(sortBool, ">=", a, tInt(0)), a, app(sortInt, "-", a))
	case "store":
		a, k, v := ev(0), ev(1), ev(2)
		return app(a.Sort, "store", a, k, v)
	case "setadd":
		a, k := ev(0), ev(1)
		return app(a.Sort, "store", a, k, tTrue)
	case "setdel":
		a, k := ev(0), ev(1)
		return app(a.Sort, "store", a, k, tFalse)
	case "setrange":
		// setrange(S, lo, hi): S united with the closed integer interval [lo, hi]
		a, lo, hi := ev(0), ev(1), ev(2)
		r := c.fresh("setrange", a.Sort)
		c.axiom(Term{S: fmt.Sprintf("(forall ((k!s Int)) (! (= (select %s k!s) (or (select %s k!s) (and (<= %s k!s) (<= k!s %s)))) :pattern ((select %s k!s))))", r.S, a.S, lo.S, hi.S, r.S), Sort: sortBool})
		return r
	case "emptyset":
		// emptyset(x) : empty set with the element sort of x's sort
		x := ev(0)
		s := c.setSort(x.Sort)
		return Term{S: fmt.Sprintf("((as const %s) false)", s.Name), Sort: s}
	case "unix":
		// unix(t): seconds since the epoch of a time.Time
		x := ev(0)
		return app(sortInt, "div", app(sortInt, "Time.ns", x), tInt(1000000000))
	case "ns":
		return app(sortInt, "Time.ns", ev(0))
	case "mktime":
		ts := c.timeSort()
		return app(ts, ts.Ctor, ev(0))
	case "iszero":
		return tEq(app(sortInt, "Time.ns", ev(0)), Term{S: "time.zero", Sort: sortInt})
	case "uint32", "uint64", "uint8", "uint16", "uint":
		bits := map[string]int{"uint32": 32, "uint64": 64, "uint8": 8, "uint16": 16, "uint": 64}[e.Name]
		return wrapInt(ev(0), intInfo{bits, true})
	case "int", "int64", "int32", "mathint":
		return ev(0)
	}
	if sf := u.ensureSpecFunc(e.Name); sf != nil {
		if len(sf.Params) != len(args) {
			sfail("%s expects %d arguments", e.Name, len(sf.Params))
		}
		var ts []Term
		for i := range args {
			t := ev(i)
			ps, _ := u.sortOfTypeStr(sf.Params[i].Type)
			if ps.Name != t.Sort.Name {
				if t.Sort.Kind == KPtr && t.Sort.Elem.Name == ps.Name {
					t = c.ptrVal(t)
				} else {
					sfail("%s: argument %d has sort %s, expected %s", e.Name, i, t.Sort.Name, ps.Name)
				}
			}
			ts = append(ts, t)
		}
		rs, gt := u.sortOfTypeStr(sf.Result)
		r := app(rs, "sf."+e.Name, ts...)
		r.Go = gt
		return r
	}
	// pure Go function of the package: uninterpreted symbol gofn.<key>
	if t, ok := u.pureGoCall(e.Name, func() []Term {
		var ts []Term
		for i := range args {
			ts = append(ts, ev(i))
		}
		return ts
	}); ok {
		return t
	}
	sfail("unknown function %q in spec", e.Name)
	return Term{}
}

// pureGoCall: applications of Go functions whose contract is marked pure.
func (u *Unit) pureGoCall(key string, args func() []Term) (Term, bool) {
	ct := u.cs.Funcs[key]
	if ct == nil || !ct.Pure {
		return Term{}, false
	}
	fn := u.world.findFunc(u.pkg, key)
	if fn == nil {
		return Term{}, false
	}
	ts := args()
	sig := fn.Type().(*types.Signature)
	// coerce pointer arguments to the declared parameter sorts
	off := 0
	if sig.Recv() != nil {
		off = 1
	}
	for i := range ts {
		var want types.Type
		if i == 0 && off == 1 {
			want = sig.Recv().Type()
		} else if i-off < sig.Params().Len() {
			want = sig.Params().At(i - off).Type()
		}
		if want != nil {
			ws := u.c.sortOf(want)
			if ws.Kind != KPtr && ts[i].Sort.Kind == KPtr {
				ts[i] = u.c.ptrVal(ts[i])
			}
		}
	}
	u.ensurePureAxiom(key, ct, fn)
	return u.pureGoCallTerms(key, fn, ts)
}

// ensurePureAxiom: the contract of a pure Go function as a quantified axiom over its
// uninterpreted symbol (justified by verifying the function against that contract).
func (u *Unit) ensurePureAxiom(key string, ct *Contract, fn *types.Func) {
	name := "pureax." + u.pkg.Name + "." + key
	if u.c.declared[name] {
		return
	}
	u.c.declared[name] = true
	sig := fn.Type().(*types.Signature)
	env := &Env{u: u, vars: map[string]Term{}}
	var bs []string
	var ts []Term
	var guards []Term
	add := func(v *types.Var, nm string) {
		s := u.c.sortOf(v.Type())
		t := Term{S: "ax." + nm, Sort: s, Go: v.Type()}
		env.vars[nm] = t
		bs = append(bs, fmt.Sprintf("(%s %s)", t.S, s.Name))
		ts = append(ts, t)
		guards = append(guards, u.c.typeFacts(t, v.Type(), 0))
	}
	if sig.Recv() != nil {
		rn := sig.Recv().Name()
		if rn == "" || rn == "_" {
			rn = "recv"
		}
		add(sig.Recv(), rn)
	}
	for i := 0; i < sig.Params().Len(); i++ {
		nm := sig.Params().At(i).Name()
		if nm == "" || nm == "_" {
			nm = fmt.Sprintf("p%d", i)
		}
		add(sig.Params().At(i), nm)
	}
	r, ok := u.pureGoCallTerms(key, fn, ts)
	if !ok {
		return
	}
	env.vars["r0"] = r
	env.vars["result"] = r
	if rn := sig.Results().At(0).Name(); rn != "" && rn != "_" {
		env.vars[rn] = r
	}
	env.old = env
	for _, q := range ct.Requires {
		guards = append(guards, env.evalBool(q.Expr))
	}
	var posts []Term
	posts = append(posts, u.c.typeFacts(r, sig.Results().At(0).Type(), 0))
	for _, q := range ct.Ensures {
		posts = append(posts, env.evalBool(q.Expr))
	}
	body := tImp(tAnd(guards...), tAnd(posts...))
	u.c.emit("; contract of pure function " + key + " as axiom")
	u.c.emit(fmt.Sprintf("(assert (forall (%s) (! %s :pattern (%s))))", strings.Join(bs, " "), body.S, r.S))
	u.c.note("contract of pure function used as quantified axiom (proved separately under its own obligations): " + u.pkg.Name + "." + key)
}

func hasQuant(e *SX) bool {
	if e == nil {
		return false
	}
	if e.Op == "forall" || e.Op == "exists" {
		return true
	}
	for _, a := range e.Args {
		if hasQuant(a) {
			return true
		}
	}
	return false
}

// resolveType resolves a Go type expression written in a contract (package-qualified names via the package's imports).
func (u *Unit) resolveType(e ast.Expr) types.Type {
	switch t := e.(type) {
	case *ast.Ident:
		if obj := u.pkg.Types.Scope().Lookup(t.Name); obj != nil {
			if tn, ok := obj.(*types.TypeName); ok {
				return tn.Type()
			}
		}
		if obj := types.Universe.Lookup(t.Name); obj != nil {
			if tn, ok := obj.(*types.TypeName); ok {
				return tn.Type()
			}
		}
	case *ast.SelectorExpr:
		if id, ok := t.X.(*ast.Ident); ok {
			// file-level import aliases (import consul "github.com/hashicorp/consul/api")
			for _, f := range u.pkg.Syntax {
				for _, is := range f.Imports {
					if is.Name != nil && is.Name.Name == id.Name {
						path := strings.Trim(is.Path.Value, "\"")
						if ip := u.world.pkgs[path]; ip != nil && ip.Types != nil {
							if tn, ok := ip.Types.Scope().Lookup(t.Sel.Name).(*types.TypeName); ok {
								return tn.Type()
							}
						}
					}
				}
			}
			for _, imp := range u.pkg.Types.Imports() {
				if imp.Name() == id.Name {
					if tn, ok := imp.Scope().Lookup(t.Sel.Name).(*types.TypeName); ok {
						return tn.Type()
					}
				}
			}
			// any loaded package with that name
			for _, p := range u.world.pkgs {
				if p.Types != nil && p.Types.Name() == id.Name {
					if tn, ok := p.Types.Scope().Lookup(t.Sel.Name).(*types.TypeName); ok {
						return tn.Type()
					}
				}
			}
		}
	case *ast.StarExpr:
		if el := u.resolveType(t.X); el != nil {
			return types.NewPointer(el)
		}
	case *ast.ArrayType:
		if el := u.resolveType(t.Elt); el != nil && t.Len == nil {
			return types.NewSlice(el)
		}
	case *ast.MapType:
		k, v := u.resolveType(t.Key), u.resolveType(t.Value)
		if k != nil && v != nil {
			return types.NewMap(k, v)
		}
	case *ast.ParenExpr:
		return u.resolveType(t.X)
	}
	return nil
}
