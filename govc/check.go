package main

// `govc check -p Cxx -tier quick|thorough`: regenerate every obligation of the
// property from /repo's working tree, discharge, compare with the ledger, write
// evidence, report violations.

import (
	"sync"
	"encoding/json"
	"flag"
	"fmt"
	"os"
	"path/filepath"
	"regexp"
	"sort"
	"strconv"
	"strings"
	"time"
)

type LedgerObl struct {
	Status  string `json:"status"` // discharged | undecided
	Backend string `json:"backend,omitempty"`
	Ms      int64  `json:"ms,omitempty"`
	Tier    string `json:"tier"` // quick | thorough
	Kind    string `json:"kind"`
}

type LedgerUnit struct {
	Kind        string                `json:"kind"`
	Locals      [][2]string           `json:"locals,omitempty"`
	Obligations map[string]*LedgerObl `json:"obligations"`
}

type Ledger struct {
	Properties map[string]map[string]*LedgerUnit `json:"properties"`
}

func loadLedger() *Ledger {
	l := &Ledger{Properties: map[string]map[string]*LedgerUnit{}}
	data, err := os.ReadFile(filepath.Join(verifDir, "obligations.lock.json"))
	if err == nil {
		_ = json.Unmarshal(data, l)
	}
	if l.Properties == nil {
		l.Properties = map[string]map[string]*LedgerUnit{}
	}
	return l
}

var propLineRe = regexp.MustCompile(`(?m)^\s*//@\s+property\s+(.*)$`)

// packagesForProperty scans contract sidecars for the property tag.
func packagesForProperty(prop string) []string {
	var dirs []string
	files, _ := filepath.Glob(filepath.Join(repoDir, "*", "zz_verif_contracts*.go"))
	f2, _ := filepath.Glob(filepath.Join(repoDir, "*", "*", "zz_verif_contracts*.go"))
	files = append(files, f2...)
	seen := map[string]bool{}
	for _, f := range files {
		data, err := os.ReadFile(f)
		if err != nil {
			continue
		}
		for _, m := range propLineRe.FindAllStringSubmatch(string(data), -1) {
			for _, p := range strings.Fields(strings.ReplaceAll(m[1], ",", " ")) {
				if p == prop {
					d, _ := filepath.Rel(repoDir, filepath.Dir(f))
					if !seen[d] {
						seen[d] = true
						dirs = append(dirs, d)
					}
				}
			}
		}
	}
	sort.Strings(dirs)
	return dirs
}

func hasProp(ps []string, p string) bool {
	for _, q := range ps {
		if q == p {
			return true
		}
	}
	return false
}

// unitsForProperty verifies every function and lemma tagged with the property.
func unitsForProperty(w *World, prop string, dirs []string) []*UnitResult {
	var units []*UnitResult
	for _, rel := range dirs {
		p := w.byName[rel]
		if p == nil {
			continue
		}
		cs := w.contracts[p.PkgPath]
		for _, key := range cs.Order {
			if strings.HasPrefix(key, "lemma:") {
				lm := cs.Lemmas[strings.TrimPrefix(key, "lemma:")]
				if prop == "" || hasProp(lm.Props, prop) {
					units = append(units, w.verifyLemma(p, cs, lm))
				}
				continue
			}
			if strings.HasPrefix(key, "fieldpartition:") {
				for _, fp := range cs.Partitions {
					if fp.Type == strings.TrimPrefix(key, "fieldpartition:") && (prop == "" || hasProp(fp.Props, prop)) {
						units = append(units, w.verifyFieldPartition(p, fp))
					}
				}
				continue
			}
			if strings.HasPrefix(key, "immutable:") {
				for _, d := range cs.Immutable {
					if d.Name == strings.TrimPrefix(key, "immutable:") && (prop == "" || hasProp(d.Props, prop)) {
						units = append(units, w.verifyImmutable(p, d))
					}
				}
				continue
			}
			ct := cs.Funcs[key]
			if ct.Assumed {
				continue
			}
			if prop == "" || hasProp(ct.Props, prop) {
				units = append(units, w.verifyFunc(p, cs, ct))
			}
		}
	}
	return units
}

type Finding struct {
	Kind     string // finding | fixed
	Property string
	Match    string // obligation name (or bounded case id)
	Text     string
}

func loadFindings() []Finding {
	var out []Finding
	data, err := os.ReadFile(filepath.Join(verifDir, "known_findings.txt"))
	if err != nil {
		return nil
	}
	for _, line := range strings.Split(string(data), "\n") {
		line = strings.TrimSpace(line)
		if line == "" || strings.HasPrefix(line, "#") {
			continue
		}
		var f Finding
		switch {
		case strings.HasPrefix(line, "finding:"):
			f.Kind = "finding"
			line = strings.TrimSpace(line[8:])
		case strings.HasPrefix(line, "fixed:"):
			f.Kind = "fixed"
			line = strings.TrimSpace(line[6:])
		default:
			continue
		}
		for _, fld := range strings.Fields(line) {
			if strings.HasPrefix(fld, "property=") {
				f.Property = fld[9:]
			}
			if strings.HasPrefix(fld, "obligation=") {
				f.Match = fld[11:]
			}
			if strings.HasPrefix(fld, "case=") {
				f.Match = fld[5:]
			}
		}
		f.Text = line
		out = append(out, f)
	}
	return out
}

type violation struct {
	obl      string
	replay   string
	hasInput bool
	what     string
}

func cmdCheck(args []string) {
	fs := flag.NewFlagSet("check", flag.ExitOnError)
	prop := fs.String("p", "", "property id")
	tier := fs.String("tier", "quick", "quick | thorough")
	fs.Parse(args)
	if *prop == "" {
		fmt.Fprintln(os.Stderr, "check: -p required")
		os.Exit(2)
	}
	if t := os.Getenv("VERIF_TIER"); t == "quick" || t == "thorough" {
		*tier = t
	}
	seed := 0
	if s := os.Getenv("VERIF_SEED"); s != "" {
		seed, _ = strconv.Atoi(s)
	}
	os.Exit(runCheck(*prop, *tier, seed))
}

func runCheck(prop, tier string, seed int) int {
	t0 := time.Now()
	dirs := packagesForProperty(prop)
	ledger := loadLedger()
	lp := ledger.Properties[prop]
	evDir := filepath.Join(verifDir, "evidence")
	if d := os.Getenv("VERIF_EVIDENCE_DIR"); d != "" {
		evDir = d // the must-fail corpus runs checks on modified trees: their evidence must not replace the real one
	}
	evPath := filepath.Join(evDir, prop+".json")
	os.MkdirAll(filepath.Dir(evPath), 0o755)
	os.Remove(evPath)
	replayDir := filepath.Join(verifDir, "replays", prop)
	if d := os.Getenv("VERIF_REPLAY_DIR"); d != "" {
		replayDir = filepath.Join(d, prop) // runs against scratch trees keep their replays apart
	}
	os.RemoveAll(replayDir)
	os.MkdirAll(replayDir, 0o755)

	var viols []violation
	var known []string
	findings := loadFindings()

	addViol := func(v violation) { viols = append(viols, v) }

	var units []*UnitResult
	var w *World
	var loadErr error
	if len(dirs) > 0 {
		w, loadErr = loadWorld(dirs, verifDir)
	} else {
		loadErr = fmt.Errorf("no contract is tagged with property %s", prop)
	}
	secs := 15 // per obligation; the slowest one takes under 6 s on an idle machine, a retry gets four times as long
	if tier == "thorough" {
		secs = 60
	}
	smtDir, _ := os.MkdirTemp("", "govc-smt-")
	defer os.RemoveAll(smtDir)
	if loadErr != nil {
		// the tree does not load/type-check with the contracts: every ledger obligation is lost
		p := filepath.Join(replayDir, "load-error.txt")
		os.WriteFile(p, []byte("cannot load /repo for property "+prop+":\n"+loadErr.Error()+"\n"), 0o644)
		addViol(violation{obl: "load", replay: p, what: loadErr.Error()})
	} else {
		w.ledgerLocals = map[string][][2]string{}
		for _, units := range ledger.Properties {
			for key, lu := range units {
				if len(lu.Locals) > 0 {
					w.ledgerLocals[key] = lu.Locals
				}
			}
		}
		units = unitsForProperty(w, prop, dirs)
		// thorough-only obligations are skipped in the quick tier
		if tier == "quick" {
			for _, u := range units {
				lu := lp[u.Key]
				var keep []*Obligation
				for _, o := range u.Obls {
					if lu != nil {
						// only slow vacuity probes (cover obligations) are left to the thorough tier: every proof obligation
						// runs on every change, however long it took when the ledger was written (that time depends on the load)
						if lo := lu.Obligations[o.Name]; lo != nil && lo.Tier == "thorough" && lo.Kind == "cover" {
							continue
						}
					}
					keep = append(keep, o)
				}
				u.Obls = keep
			}
		}
		dischargeAll(units, smtDir, secs, 6)
		// retry anything that did not discharge but is recorded as discharged, with a longer limit (solver jitter)
		var retry []*UnitResult
		for _, u := range units {
			lu := lp[u.Key]
			var again []*Obligation
			for _, o := range u.Obls {
				if o.Result == "timeout" || o.Result == "unknown" {
					if lu != nil && lu.Obligations[o.Name] != nil && lu.Obligations[o.Name].Status == "discharged" {
						again = append(again, o)
					}
				}
			}
			if len(again) > 0 {
				retry = append(retry, &UnitResult{Key: u.Key, Obls: again, decls: u.decls})
			}
		}
		if len(retry) > 0 && os.Getenv("VERIF_NO_RETRY") == "" { // the must-fail corpus skips the second chance: its mutants are expected to fail
			dischargeAll(retry, smtDir, secs*4, 4)
		}
	}

	// ---- compare with the ledger --------------------------------------------
	total, discharged := 0, 0
	byBackend := map[string]int{}
	var solverMs int64
	var undecided []string
	var samples []any
	var funcs []string
	notes := map[string]bool{}
	var abstracted []string
	seenUnits := map[string]bool{}
	isKnown := func(name string) *Finding {
		for i := range findings {
			f := &findings[i]
			if f.Kind == "finding" && f.Property == prop && f.Match == name {
				return f
			}
		}
		return nil
	}
	writeReplay := func(u *UnitResult, o *Obligation, reason string) string {
		p := filepath.Join(replayDir, sanitize(o.Name)+".txt")
		var sb strings.Builder
		fmt.Fprintf(&sb, "property: %s\nobligation: %s\nfunction: %s (%s:%d)\nkind: %s\nposition: %s\ngoal: %s\nreason: %s\nsolver verdict: %s (%s, %d ms)\nsolver output:\n%s\n", prop, o.Name, u.Key, u.File, u.Line, o.Kind, o.Pos, o.Text, reason, o.Result, o.Backend, o.Millis, o.Output)
		if o.script != "" {
			sp := filepath.Join(replayDir, sanitize(o.Name)+".smt2")
			os.WriteFile(sp, []byte(o.script), 0o644)
			fmt.Fprintf(&sb, "SMT script: %s\n", sp)
		}
		os.WriteFile(p, []byte(sb.String()), 0o644)
		return p
	}
	modelJobs := 0
	var modelWG sync.WaitGroup
	defer modelWG.Wait()
	for _, u := range units {
		seenUnits[u.Key] = true
		funcs = append(funcs, u.Key)
		for _, n := range u.Notes {
			notes[n] = true
		}
		abstracted = append(abstracted, u.Abstracted...)
		lu := lp[u.Key]
		if u.Err != "" {
			p := filepath.Join(replayDir, sanitize(u.Key)+".translation.txt")
			os.WriteFile(p, []byte(fmt.Sprintf("property: %s\nfunction: %s\nall obligations of this function are lost: %s\n", prop, u.Key, u.Err)), 0o644)
			if lu != nil {
				addViol(violation{obl: u.Key + "#translation", replay: p, what: u.Err})
			} else {
				undecided = append(undecided, u.Key+": "+u.Err)
			}
			continue
		}
		gen := map[string]bool{}
		for _, o := range u.Obls {
			gen[o.Name] = true
			total++
			solverMs += o.Millis
			var lo *LedgerObl
			if lu != nil {
				lo = lu.Obligations[o.Name]
			}
			if o.Result == "discharged" {
				discharged++
				byBackend[o.Backend]++
				if len(samples) < 6 && (o.Kind == "post" || o.Kind == "lemma" || o.Kind == "inv-keep") {
					samples = append(samples, map[string]any{"obligation": o.Name, "goal": o.Text, "back_end": o.Backend, "ms": o.Millis, "at": o.Pos})
				}
				continue
			}
			if lo != nil && lo.Status == "undecided" {
				undecided = append(undecided, o.Name)
				total-- // never proved on the unchanged tree: not claimed, not counted
				continue
			}
			if f := isKnown(o.Name); f != nil {
				known = append(known, fmt.Sprintf("KNOWN-FINDING: property=%s %s", prop, f.Text))
				total--
				continue
			}
			if lp == nil {
				undecided = append(undecided, o.Name)
				total--
				continue
			}
			reason := "obligation discharged on the unchanged tree (ledger) and fails now"
			if lo == nil {
				reason = "new obligation generated from the changed code does not discharge"
				// Memory-safety obligations are named after the expression they guard, so a harmless rewrite gives them
				// new names. Where the ledger already holds an UNDECIDED obligation of the same kind for this function,
				// that kind of safety was never claimed for the function: a new one that does not discharge is undecided
				// too, not a violation.
				if lu != nil && isSafetyKind(o.Kind) {
					unclaimed := false
					for _, other := range lu.Obligations {
						if other.Kind == o.Kind && other.Status == "undecided" {
							unclaimed = true
						}
					}
					if unclaimed {
						undecided = append(undecided, o.Name)
						total--
						continue
					}
				}
			}
			rp := writeReplay(u, o, reason)
			v := violation{obl: o.Name, replay: rp, what: o.Text}
			// the solver's model is appended to the replay text for the first few refuted obligations (in the background)
			if modelJobs < 3 {
				modelJobs++
				modelWG.Add(1)
				go func(u *UnitResult, o *Obligation) {
					defer modelWG.Done()
					tryReplay(w, u, o, prop, replayDir)
				}(u, o)
			}
			addViol(v)
		}
		if lu != nil {
			var lost []string
			for name, lo := range lu.Obligations {
				if gen[name] || lo.Status != "discharged" {
					continue
				}
				if tier == "quick" && lo.Tier == "thorough" && lo.Kind == "cover" {
					continue
				}
				switch lo.Kind {
				case "post", "inv-init", "inv-keep", "lemma", "lemma-step", "frame", "ghost-assert", "dec", "dec-bound":
					lost = append(lost, name)
				}
			}
			sort.Strings(lost)
			for _, name := range lost {
				p := filepath.Join(replayDir, sanitize(name)+".lost.txt")
				os.WriteFile(p, []byte(fmt.Sprintf("property: %s\nobligation: %s\nthe obligation is in the ledger but is no longer generated from the current source (anchor lost)\n", prop, name)), 0o644)
				addViol(violation{obl: name, replay: p, what: "obligation no longer generated"})
			}
		}
	}
	// ledger units that no longer exist
	var lostUnits []string
	for key := range lp {
		if !seenUnits[key] && loadErr == nil {
			lostUnits = append(lostUnits, key)
		}
	}
	sort.Strings(lostUnits)
	for _, key := range lostUnits {
		p := filepath.Join(replayDir, sanitize(key)+".lost.txt")
		os.WriteFile(p, []byte(fmt.Sprintf("property: %s\nfunction %s is in the ledger but has no contract/unit any more\n", prop, key)), 0o644)
		addViol(violation{obl: key, replay: p, what: "unit lost"})
	}

	// ---- bounded stand-ins (executed on the real code; never counted as proved) ----
	bounded := runBounded(prop, tier, seed, replayDir, findings)
	for _, b := range bounded.violations {
		addViol(b)
	}
	known = append(known, bounded.known...)
	if bounded.firstReplay != "" {
		// the bounded harness (real code, enumerated inputs) found a failing input in this run:
		// it serves as the concrete replay for the failed proof obligations of the same property
		for i := range viols {
			if !viols[i].hasInput {
				if f, err := os.OpenFile(bounded.firstReplay, os.O_APPEND|os.O_WRONLY, 0o644); err == nil {
					fmt.Fprintf(f, "\nfailed proof obligation: %s (details: %s)\n", viols[i].obl, viols[i].replay)
					f.Close()
				}
				viols[i].replay = bounded.firstReplay
				viols[i].hasInput = true
			}
		}
	}

	// ---- evidence ---------------------------------------------------------------
	sort.Strings(funcs)
	var noteList []string
	for n := range notes {
		noteList = append(noteList, n)
	}
	sort.Strings(noteList)
	sort.Strings(abstracted)
	sort.Strings(undecided)
	if len(samples) == 0 {
		for _, u := range units {
			for _, o := range u.Obls {
				if len(samples) < 3 {
					samples = append(samples, map[string]any{"obligation": o.Name, "goal": o.Text, "result": o.Result})
				}
			}
		}
	}
	if len(samples) == 0 {
		samples = append(samples, "no obligation generated")
	}
	trusted := []string{
		"govc itself (translator from typed Go AST to SMT-LIB, forward symbolic execution with state merging, loop cut by invariants)",
		"SMT solvers z3 4.8.12, z3 5.1.0, cvc5 1.0 (first unsat wins)",
		"Go semantics as encoded in DESIGN.md section 3 (value semantics for slices/maps/structs, no aliasing between distinct variables)",
		"signed integer arithmetic treated as mathematical (no overflow obligations unless option overflow=check); unsigned arithmetic exact modulo 2^w",
		"partial correctness: termination only where a decreases clause is given",
	}
	trusted = append(trusted, noteList...)
	cov := map[string]any{
		"obligations":              total,
		"discharged":               discharged,
		"checker_cmd":              fmt.Sprintf("/verif/govc/bin/govc check -p %s -tier %s", prop, tier),
		"trusted_base":             trusted,
		"functions_under_contract": funcs,
		"by_back_end":              byBackend,
		"solver_ms_total":          solverMs,
		"undecided_not_claimed":    undecided,
		"abstracted_constructs":    abstracted,
		"samples":                  samples,
		"bounded":                  bounded.report,
		"explanation":              "obligations are regenerated from /repo's working tree on every run (go/packages typed AST, tag verif) and discharged by the SMT portfolio; the ledger /verif/obligations.lock.json names the obligations that discharge on the unchanged tree",
		"evaluations":              total + bounded.evaluations,
		"distinct_nontrivial":      discharged + bounded.distinct,
		"rule":                     "one case per generated proof obligation (distinct by name; cover/vacuity checks included) plus bounded stand-in cases listed under 'bounded'",
	}
	ev := map[string]any{
		"property_id": prop,
		"tier":        tier,
		"seed":        seed,
		"level":       "proof",
		"coverage":    cov,
		"assumptions": trusted,
		"wall_s":      time.Since(t0).Seconds(),
		"violations":  len(viols),
	}
	data, _ := json.MarshalIndent(ev, "", " ")
	os.WriteFile(evPath, data, 0o644)

	for _, k := range known {
		fmt.Println(k)
	}
	fmt.Printf("property %s tier %s: %d obligations, %d discharged, %d undecided (not claimed), %d bounded cases, %.1fs\n", prop, tier, total, discharged, len(undecided), bounded.evaluations, time.Since(t0).Seconds())
	if len(viols) > 0 {
		for _, v := range viols {
			suffix := ""
			if !v.hasInput {
				suffix = " no-failing-input-found"
			}
			fmt.Printf("FAILED OBLIGATION %s: %s\n", v.obl, v.what)
			fmt.Printf("VIOLATION property=%s replay=%s%s\n", prop, v.replay, suffix)
		}
		return 1
	}
	return 0
}

// cmdRelock regenerates the ledger for the given properties from the current tree (run by us, never by a check).
func cmdRelock(args []string) {
	fs := flag.NewFlagSet("relock", flag.ExitOnError)
	props := fs.String("p", "", "comma separated property ids")
	secs := fs.Int("t", 30, "solver timeout")
	fs.Parse(args)
	ledger := loadLedger()
	for _, prop := range strings.Split(*props, ",") {
		dirs := packagesForProperty(prop)
		if len(dirs) == 0 {
			fmt.Println("no contracts for", prop)
			continue
		}
		w, err := loadWorld(dirs, verifDir)
		if err != nil {
			fmt.Fprintln(os.Stderr, err)
			os.Exit(2)
		}
		units := unitsForProperty(w, prop, dirs)
		smtDir, _ := os.MkdirTemp("", "govc-smt-")
		dischargeAll(units, smtDir, *secs, 6)
		os.RemoveAll(smtDir)
		lp := map[string]*LedgerUnit{}
		nd, nu := 0, 0
		for _, u := range units {
			if u.Err != "" {
				fmt.Printf("  %s: TRANSLATION ERROR (not locked): %s\n", u.Key, u.Err)
				continue
			}
			lu := &LedgerUnit{Kind: u.Kind, Locals: u.Locals, Obligations: map[string]*LedgerObl{}}
			for _, o := range u.Obls {
				lo := &LedgerObl{Kind: o.Kind, Backend: o.Backend, Ms: o.Millis, Tier: "quick"}
				if o.Result == "discharged" {
					lo.Status = "discharged"
					if o.Millis > 3000 {
						lo.Tier = "thorough"
					}
					nd++
				} else {
					lo.Status = "undecided"
					nu++
					fmt.Printf("  undecided: %s (%s) %s\n", o.Name, o.Result, o.Text)
				}
				lu.Obligations[o.Name] = lo
			}
			lp[u.Key] = lu
		}
		ledger.Properties[prop] = lp
		fmt.Printf("%s: %d units, %d discharged, %d undecided\n", prop, len(lp), nd, nu)
	}
	data, _ := json.MarshalIndent(ledger, "", " ")
	tmp := filepath.Join(verifDir, ".obligations.lock.json.tmp")
	if os.WriteFile(tmp, data, 0o644) == nil {
		os.Rename(tmp, filepath.Join(verifDir, "obligations.lock.json")) // atomic: checks running concurrently never read a partial ledger
	}
}

func isSafetyKind(k string) bool {
	switch k {
	case "nilderef", "idx", "nilmap", "typeassert", "div0", "nopanic", "makelen", "appendalias":
		return true
	}
	return false
}
