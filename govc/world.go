package main

// Loading of /repo packages (typed AST from source, tag verif) and contract sets.

import (
	"fmt"
	"go/ast"
	"go/types"
	"os"
	"path/filepath"
	"sort"
	"strings"

	"golang.org/x/tools/go/packages"
)

// repoDir is the tree the obligations are generated from: /repo's working tree. The must-fail corpus and the seeded
// changes are run against a scratch git worktree of /repo instead (VERIF_REPO), so that /repo itself stays untouched.
var repoDir = func() string {
	if d := os.Getenv("VERIF_REPO"); d != "" {
		return d
	}
	return "/repo"
}()
const modPath = "github.com/grafana/dskit"

type World struct {
	pkgs      map[string]*packages.Package // by import path
	byName    map[string]*packages.Package // by package dir relative to repo ("ring", "kv/memberlist")
	contracts map[string]*ContractSet      // by import path
	std       *ContractSet                 // assumed contracts for dependencies (/verif/contracts/*.spec)
	funcDecls map[*types.Func]*ast.FuncDecl
	globalInit map[*types.Var]ast.Expr
	ledgerLocals map[string][][2]string // per unit: local variable names and types recorded in the ledger (rename-robust binding)
	loadSecs  float64
}

func goEnv() []string {
	env := os.Environ()
	var out []string
	for _, e := range env {
		if strings.HasPrefix(e, "PATH=") || strings.HasPrefix(e, "GOFLAGS=") || strings.HasPrefix(e, "GOPROXY=") || strings.HasPrefix(e, "GOSUMDB=") || strings.HasPrefix(e, "GOTOOLCHAIN=") {
			continue
		}
		out = append(out, e)
	}
	out = append(out, "PATH=/opt/veriftools/go1.26.8/bin:"+os.Getenv("PATH"), "GOFLAGS=-mod=mod", "GOPROXY=off", "GOSUMDB=off", "GOTOOLCHAIN=local")
	return out
}

func loadWorld(dirs []string, verifDir string) (*World, error) {
	w := &World{pkgs: map[string]*packages.Package{}, byName: map[string]*packages.Package{}, contracts: map[string]*ContractSet{}, funcDecls: map[*types.Func]*ast.FuncDecl{}, globalInit: map[*types.Var]ast.Expr{}}
	cfg := &packages.Config{
		Mode:       packages.NeedName | packages.NeedFiles | packages.NeedSyntax | packages.NeedTypes | packages.NeedTypesInfo | packages.NeedImports | packages.NeedDeps,
		Dir:        repoDir,
		BuildFlags: []string{"-tags=verif"},
		Env:        goEnv(),
	}
	var pats []string
	for _, d := range dirs {
		pats = append(pats, "./"+d)
	}
	pkgs, err := packages.Load(cfg, pats...)
	if err != nil {
		return nil, err
	}
	for _, p := range pkgs {
		if len(p.Errors) > 0 {
			return nil, fmt.Errorf("package %s does not type-check: %v", p.PkgPath, p.Errors[0])
		}
	}
	var visit func(p *packages.Package)
	visit = func(p *packages.Package) {
		if _, ok := w.pkgs[p.PkgPath]; ok {
			return
		}
		w.pkgs[p.PkgPath] = p
		if strings.HasPrefix(p.PkgPath, modPath+"/") {
			w.byName[strings.TrimPrefix(p.PkgPath, modPath+"/")] = p
		}
		for _, ip := range p.Imports {
			visit(ip)
		}
	}
	for _, p := range pkgs {
		visit(p)
	}
	w.std = &ContractSet{Pkg: "std", Funcs: map[string]*Contract{}, SpecFuncs: map[string]*SpecFunc{}, Lemmas: map[string]*Lemma{}, Guarded: map[string]string{}}
	stdFiles, _ := filepath.Glob(filepath.Join(verifDir, "contracts", "*.spec"))
	sort.Strings(stdFiles)
	for _, f := range stdFiles {
		data, err := os.ReadFile(f)
		if err != nil {
			return nil, err
		}
		if err := w.std.parseFile(f, string(data)); err != nil {
			return nil, fmt.Errorf("%s: %w", f, err)
		}
	}
	for _, fc := range w.std.Funcs {
		fc.Assumed = true
	}
	for rel, p := range w.byName {
		if len(p.Syntax) == 0 {
			continue
		}
		cs, err := loadContracts(filepath.Join(repoDir, rel), p.Name)
		if err != nil {
			return nil, err
		}
		w.contracts[p.PkgPath] = cs
		for _, f := range p.Syntax {
			for _, d := range f.Decls {
				if fd, ok := d.(*ast.FuncDecl); ok {
					if obj, ok := p.TypesInfo.Defs[fd.Name].(*types.Func); ok {
						w.funcDecls[obj] = fd
					}
				}
				if gd, ok := d.(*ast.GenDecl); ok {
					for _, sp := range gd.Specs {
						if vs, ok := sp.(*ast.ValueSpec); ok && len(vs.Values) == len(vs.Names) {
							for i, nm := range vs.Names {
								if v, ok := p.TypesInfo.Defs[nm].(*types.Var); ok {
									w.globalInit[v] = vs.Values[i]
								}
							}
						}
					}
				}
			}
		}
	}
	return w, nil
}

// funcKey returns the contract key of a function object: Name or Recv.Name.
func funcKey(fn *types.Func) string {
	sig, _ := fn.Type().(*types.Signature)
	if sig != nil && sig.Recv() != nil {
		rt := sig.Recv().Type()
		if p, ok := rt.(*types.Pointer); ok {
			rt = p.Elem()
		}
		rt = types.Unalias(rt)
		if n, ok := rt.(*types.Named); ok {
			return n.Obj().Name() + "." + fn.Name()
		}
		return "?." + fn.Name()
	}
	return fn.Name()
}

// findFunc resolves a contract key within a package.
func (w *World) findFunc(p *packages.Package, key string) *types.Func {
	if i := strings.Index(key, "."); i > 0 {
		tn, mn := key[:i], key[i+1:]
		obj := p.Types.Scope().Lookup(tn)
		if obj == nil {
			return nil
		}
		named, ok := obj.Type().(*types.Named)
		if !ok {
			return nil
		}
		for i := 0; i < named.NumMethods(); i++ {
			if named.Method(i).Name() == mn {
				return named.Method(i)
			}
		}
		if it, ok := named.Underlying().(*types.Interface); ok {
			for i := 0; i < it.NumMethods(); i++ {
				if it.Method(i).Name() == mn {
					return it.Method(i)
				}
			}
		}
		return nil
	}
	if fn, ok := p.Types.Scope().Lookup(key).(*types.Func); ok {
		return fn
	}
	return nil
}

// contractFor finds the contract applying to a callee as seen from package `from`.
func (w *World) contractFor(from *packages.Package, fn *types.Func) (*Contract, *packages.Package, *ContractSet) {
	key := funcKey(fn)
	if fn.Pkg() == nil {
		return nil, nil, nil
	}
	if p, ok := w.pkgs[fn.Pkg().Path()]; ok {
		if cs := w.contracts[fn.Pkg().Path()]; cs != nil {
			if ct := cs.Funcs[key]; ct != nil {
				return ct, p, cs
			}
		}
	}
	q := fn.Pkg().Name() + "." + key
	if cs := w.contracts[from.PkgPath]; cs != nil {
		if ct := cs.Funcs[q]; ct != nil {
			return ct, from, cs
		}
	}
	if ct := w.std.Funcs[q]; ct != nil {
		return ct, from, w.std
	}
	return nil, nil, nil
}

// isImmutable: the package's contract declares the global immutable (frame-checked syntactically).
func (w *World) isImmutable(v *types.Var) bool {
	if v.Pkg() == nil {
		return false
	}
	cs := w.contracts[v.Pkg().Path()]
	if cs == nil {
		return false
	}
	for _, d := range cs.Immutable {
		if d.Name == v.Name() {
			return true
		}
	}
	return false
}
