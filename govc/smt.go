package main

// SMT terms, sorts and the per-function declaration context.
//
// All Go integer types are SMT Int (mathematical) with explicit range facts and
// explicit modular reduction for unsigned arithmetic.  No bit-vector bridges.

import (
	"fmt"
	"go/types"
	"math/big"
	"regexp"
	"sort"
	"strings"
)

type SortKind int

const (
	KInt SortKind = iota
	KBool
	KStr
	KErr
	KStruct
	KSlice
	KMap
	KPtr
	KSet // Array K Bool (ghost sets, map domains)
	KArr // Array K V (ghost total maps)
	KOpaque
	KReal
)

type Field struct {
	Name string
	Sort *Sort
	Go   types.Type
	Sel  string
}

type Sort struct {
	Kind   SortKind
	Name   string // SMT sort expression
	Elem   *Sort  // slice element / map value / ptr target / set elem
	Key    *Sort  // map key / arr index
	Fields []*Field
	Go     types.Type
	Ctor   string
}

func (s *Sort) String() string { return s.Name }

func (s *Sort) field(name string) *Field {
	for _, f := range s.Fields {
		if f.Name == name {
			return f
		}
	}
	return nil
}

type Term struct {
	S    string
	Sort *Sort
	Go   types.Type // Go type when known (integer width decisions)
}

func (t Term) String() string { return t.S }
func (t Term) ok() bool       { return t.Sort != nil }

var (
	sortInt  = &Sort{Kind: KInt, Name: "Int"}
	sortBool = &Sort{Kind: KBool, Name: "Bool"}
	sortStr  = &Sort{Kind: KStr, Name: "Str"}
	sortErr  = &Sort{Kind: KErr, Name: "Err"}
	sortReal = &Sort{Kind: KReal, Name: "Real"}
)

func tInt(n int64) Term {
	if n < 0 {
		return Term{S: fmt.Sprintf("(- %d)", -n), Sort: sortInt}
	}
	return Term{S: fmt.Sprintf("%d", n), Sort: sortInt}
}

func tBig(n *big.Int) Term {
	if n.Sign() < 0 {
		return Term{S: "(- " + new(big.Int).Neg(n).String() + ")", Sort: sortInt}
	}
	return Term{S: n.String(), Sort: sortInt}
}

var (
	tTrue  = Term{S: "true", Sort: sortBool}
	tFalse = Term{S: "false", Sort: sortBool}
)

func tBoolLit(b bool) Term {
	if b {
		return tTrue
	}
	return tFalse
}

func app(sort *Sort, f string, args ...Term) Term {
	if len(args) == 0 {
		return Term{S: f, Sort: sort}
	}
	var sb strings.Builder
	sb.WriteByte('(')
	sb.WriteString(f)
	for _, a := range args {
		sb.WriteByte(' ')
		sb.WriteString(a.S)
	}
	sb.WriteByte(')')
	return Term{S: sb.String(), Sort: sort}
}

func tAnd(ts ...Term) Term {
	var keep []Term
	for _, t := range ts {
		if t.S == "true" {
			continue
		}
		if t.S == "false" {
			return tFalse
		}
		keep = append(keep, t)
	}
	if len(keep) == 0 {
		return tTrue
	}
	if len(keep) == 1 {
		return keep[0]
	}
	return app(sortBool, "and", keep...)
}

func tOr(ts ...Term) Term {
	var keep []Term
	for _, t := range ts {
		if t.S == "false" {
			continue
		}
		if t.S == "true" {
			return tTrue
		}
		keep = append(keep, t)
	}
	if len(keep) == 0 {
		return tFalse
	}
	if len(keep) == 1 {
		return keep[0]
	}
	return app(sortBool, "or", keep...)
}

func tNot(t Term) Term {
	if t.S == "true" {
		return tFalse
	}
	if t.S == "false" {
		return tTrue
	}
	return app(sortBool, "not", t)
}

func tImp(a, b Term) Term {
	if a.S == "true" {
		return b
	}
	if a.S == "false" || b.S == "true" {
		return tTrue
	}
	return app(sortBool, "=>", a, b)
}

func tEq(a, b Term) Term {
	if a.S == b.S {
		return tTrue
	}
	return app(sortBool, "=", a, b)
}

func tIte(c, a, b Term) Term {
	if c.S == "true" {
		return a
	}
	if c.S == "false" {
		return b
	}
	if a.S == b.S {
		return a
	}
	t := app(a.Sort, "ite", c, a, b)
	t.Go = a.Go
	return t
}

// Ctx accumulates SMT declarations for one verification unit (one function or lemma).
type Ctx struct {
	decls    []string
	sorts    map[string]*Sort
	declared map[string]bool
	nfresh   int
	strLits  map[string]Term
	strOrder []string
	globals  map[string]Term
	notes    map[string]bool // assumptions / dropped calls, recorded for evidence
	defined  map[string]bool // names introduced by define-fun (macros: not usable inside triggers)
	usesStr  bool
}

func newCtx() *Ctx {
	c := &Ctx{sorts: map[string]*Sort{}, declared: map[string]bool{}, strLits: map[string]Term{}, globals: map[string]Term{}, notes: map[string]bool{}, defined: map[string]bool{}}
	c.emit("(declare-sort Str 0)")
	c.emit("(declare-sort Err 0)")
	c.emit("(declare-fun gs.len (Str) Int)")
	c.emit("(declare-fun gs.at (Str Int) Int)")
	c.emit("(assert (forall ((s Str)) (! (>= (gs.len s) 0) :pattern ((gs.len s)))))")
	c.emit("(assert (forall ((s Str) (i Int)) (! (and (<= 0 (gs.at s i)) (< (gs.at s i) 256)) :pattern ((gs.at s i)))))")
	c.emit("(declare-fun gs.lt (Str Str) Bool)")
	c.emit("(declare-const err.nil Err)")
	c.emit("(declare-const gs.empty Str)")
	c.emit("(assert (= (gs.len gs.empty) 0))")
	c.emit("(assert (forall ((s Str)) (! (=> (= (gs.len s) 0) (= s gs.empty)) :pattern ((gs.len s)))))")
	// Go truncated division / remainder over Int.
	c.emit("(define-fun go.div ((a Int) (b Int)) Int (ite (>= a 0) (ite (> b 0) (div a b) (- (div a (- b)))) (ite (> b 0) (- (div (- a) b)) (div (- a) (- b)))))")
	c.emit("(define-fun go.mod ((a Int) (b Int)) Int (- a (* b (go.div a b))))")
	c.emit("(define-fun go.wrapS ((a Int) (h Int)) Int (- (mod (+ a h) (* 2 h)) h))")
	return c
}

func (c *Ctx) note(s string) { c.notes[s] = true }

func (c *Ctx) emit(s string) {
	if strings.HasPrefix(s, "(assert (forall") && strings.Contains(s, ":pattern") {
		s = c.dropUnsafePatterns(s)
	}
	if strings.HasPrefix(s, "(define-fun ") {
		if f := strings.Fields(s[12:]); len(f) > 0 {
			c.defined[f[0]] = true
		}
	}
	c.decls = append(c.decls, s)
}

var patRe = regexp.MustCompile(` :pattern \((.*?)\)\)\)\)$`)
var nameRe = regexp.MustCompile(`[A-Za-z_$.][A-Za-z0-9_$.!]*`)

// dropUnsafePatterns removes the trigger annotation of a quantified assertion when the trigger mentions a
// define-fun name (macros expand to arbitrary terms, which solvers reject inside patterns).
func (c *Ctx) dropUnsafePatterns(s string) string {
	i := strings.Index(s, " :pattern ")
	if i < 0 {
		return s
	}
	pats := s[i:]
	for _, n := range nameRe.FindAllString(pats, -1) {
		if c.defined[n] {
			// (assert (forall (...) (! body :pattern ...)))  ->  (assert (forall (...) body))
			j := strings.Index(s, "(! ")
			if j < 0 {
				return s
			}
			body := s[j+3 : i]
			return s[:j] + body + "))"
		}
	}
	return s
}

func (c *Ctx) freshName(hint string) string {
	c.nfresh++
	return fmt.Sprintf("%s!%d", sanitize(hint), c.nfresh)
}

func sanitize(s string) string {
	var sb strings.Builder
	for _, r := range s {
		switch {
		case r >= 'a' && r <= 'z', r >= 'A' && r <= 'Z', r >= '0' && r <= '9', r == '_', r == '.':
			sb.WriteRune(r)
		case r == '*':
			sb.WriteString("P")
		case r == '[' || r == ']':
			sb.WriteString("_")
		default:
			sb.WriteString("_")
		}
	}
	if sb.Len() == 0 {
		return "x"
	}
	return sb.String()
}

// fresh declares a new constant of the given sort.
func (c *Ctx) fresh(hint string, s *Sort) Term {
	n := c.freshName(hint)
	c.emit(fmt.Sprintf("(declare-const %s %s)", n, s.Name))
	return Term{S: n, Sort: s}
}

// define names a term (sharing).
func (c *Ctx) define(hint string, t Term) Term {
	if len(t.S) < 48 {
		return t
	}
	n := c.freshName(hint)
	c.emit(fmt.Sprintf("(define-fun %s () %s %s)", n, t.Sort.Name, t.S))
	return Term{S: n, Sort: t.Sort, Go: t.Go}
}

func (c *Ctx) axiom(t Term) {
	if t.S == "true" {
		return
	}
	c.emit("(assert " + t.S + ")")
}

// ---- sorts -------------------------------------------------------------

func (c *Ctx) sliceSort(elem *Sort) *Sort {
	key := "Slice_" + sanitize(elem.Name)
	if s, ok := c.sorts[key]; ok {
		return s
	}
	s := &Sort{Kind: KSlice, Name: key, Elem: elem, Ctor: "mk." + key}
	c.sorts[key] = s
	c.emit(fmt.Sprintf("(declare-datatypes ((%s 0)) (((%s (%s.len Int) (%s.arr (Array Int %s)))))) ", key, s.Ctor, key, key, elem.Name))
	return s
}

func (c *Ctx) setSort(elem *Sort) *Sort {
	key := "(Array " + elem.Name + " Bool)"
	if s, ok := c.sorts[key]; ok {
		return s
	}
	s := &Sort{Kind: KSet, Name: key, Elem: elem, Key: elem}
	c.sorts[key] = s
	return s
}

func (c *Ctx) arrSort(k, v *Sort) *Sort {
	key := "(Array " + k.Name + " " + v.Name + ")"
	if s, ok := c.sorts[key]; ok {
		return s
	}
	s := &Sort{Kind: KArr, Name: key, Elem: v, Key: k}
	c.sorts[key] = s
	return s
}

func (c *Ctx) mapSort(k, v *Sort) *Sort {
	key := "Map_" + sanitize(k.Name) + "_" + sanitize(v.Name)
	if s, ok := c.sorts[key]; ok {
		return s
	}
	s := &Sort{Kind: KMap, Name: key, Elem: v, Key: k, Ctor: "mk." + key}
	c.sorts[key] = s
	c.emit(fmt.Sprintf("(declare-datatypes ((%s 0)) (((%s (%s.dom (Array %s Bool)) (%s.val (Array %s %s)) (%s.card Int) (%s.nil Bool)))))", key, s.Ctor, key, k.Name, key, k.Name, v.Name, key, key))
	return s
}

func (c *Ctx) ptrSort(elem *Sort) *Sort {
	key := "Ptr_" + sanitize(elem.Name)
	if s, ok := c.sorts[key]; ok {
		return s
	}
	s := &Sort{Kind: KPtr, Name: key, Elem: elem, Ctor: "mk." + key}
	c.sorts[key] = s
	c.emit(fmt.Sprintf("(declare-datatypes ((%s 0)) (((nil.%s) (%s (%s.ref Int) (%s.val %s)))))", key, key, s.Ctor, key, key, elem.Name))
	return s
}

func (c *Ctx) opaqueSort(name string) *Sort {
	key := "O_" + sanitize(name)
	if s, ok := c.sorts[key]; ok {
		return s
	}
	s := &Sort{Kind: KOpaque, Name: key}
	c.sorts[key] = s
	c.emit(fmt.Sprintf("(declare-sort %s 0)", key))
	return s
}

var qualifier = func(p *types.Package) string { return p.Name() }

// sortOf maps a Go type to an SMT sort; unknown types become opaque sorts.
func (c *Ctx) sortOf(t types.Type) *Sort {
	return c.sortOfRec(t, map[string]bool{})
}

func (c *Ctx) sortOfRec(t types.Type, busy map[string]bool) *Sort {
	t = types.Unalias(t)
	switch tt := t.(type) {
	case *types.Basic:
		info := tt.Info()
		switch {
		case info&types.IsBoolean != 0:
			return sortBool
		case info&types.IsInteger != 0:
			return sortInt
		case info&types.IsString != 0:
			return sortStr
		case info&types.IsFloat != 0:
			return c.opaqueSort("float")
		case tt.Kind() == types.UntypedNil:
			return c.opaqueSort("nil")
		}
		return c.opaqueSort(tt.Name())
	case *types.Named:
		name := types.TypeString(tt, qualifier)
		if name == "error" {
			return sortErr
		}
		if name == "time.Duration" {
			return sortInt
		}
		if name == "time.Time" {
			return c.timeSort()
		}
		under := tt.Underlying()
		switch u := under.(type) {
		case *types.Struct:
			return c.structSort(name, u, busy)
		case *types.Interface:
			if types.Identical(tt, types.Universe.Lookup("error").Type()) {
				return sortErr
			}
			return c.opaqueSort(name)
		default:
			return c.sortOfRec(under, busy)
		}
	case *types.Pointer:
		return c.ptrSort(c.sortOfRec(tt.Elem(), busy))
	case *types.Slice:
		return c.sliceSort(c.sortOfRec(tt.Elem(), busy))
	case *types.Array:
		return c.sliceSort(c.sortOfRec(tt.Elem(), busy))
	case *types.Map:
		return c.mapSort(c.sortOfRec(tt.Key(), busy), c.sortOfRec(tt.Elem(), busy))
	case *types.Struct:
		if tt.NumFields() == 0 {
			return c.unitSort()
		}
		return c.structSort("anon"+fmt.Sprint(len(c.sorts)), tt, busy)
	case *types.Interface:
		if tt.NumMethods() == 1 && tt.Method(0).Name() == "Error" {
			return sortErr
		}
		return c.opaqueSort("iface_" + types.TypeString(tt, qualifier))
	case *types.Signature:
		return c.opaqueSort("func")
	case *types.Chan:
		return c.opaqueSort("chan")
	case *types.TypeParam:
		return c.opaqueSort("tparam_" + tt.Obj().Name())
	case *types.Tuple:
		return c.opaqueSort("tuple")
	}
	return c.opaqueSort(types.TypeString(t, qualifier))
}

func (c *Ctx) unitSort() *Sort {
	if s, ok := c.sorts["Unit"]; ok {
		return s
	}
	s := &Sort{Kind: KStruct, Name: "Unit", Ctor: "unit"}
	c.sorts["Unit"] = s
	c.emit("(declare-datatypes ((Unit 0)) (((unit))))")
	return s
}

func (c *Ctx) timeSort() *Sort {
	if s, ok := c.sorts["Time"]; ok {
		return s
	}
	// time.Time is modelled as integer nanoseconds since the Unix epoch (zero Time = a fixed very negative value).
	s := &Sort{Kind: KStruct, Name: "Time", Ctor: "mk.Time"}
	s.Fields = []*Field{{Name: "ns", Sort: sortInt, Sel: "Time.ns"}}
	c.sorts["Time"] = s
	c.emit("(declare-datatypes ((Time 0)) (((mk.Time (Time.ns Int)))))")
	return s
}

func (c *Ctx) structSort(name string, st *types.Struct, busy map[string]bool) *Sort {
	key := "S_" + sanitize(name)
	if s, ok := c.sorts[key]; ok {
		return s
	}
	if busy[key] {
		return c.opaqueSort("rec_" + name)
	}
	busy[key] = true
	s := &Sort{Kind: KStruct, Name: key, Ctor: "mk." + key}
	var fs []string
	for i := 0; i < st.NumFields(); i++ {
		f := st.Field(i)
		fsort := c.sortOfRec(f.Type(), busy)
		fname := f.Name()
		if fname == "_" {
			fname = fmt.Sprintf("_blank%d", i)
		}
		fl := &Field{Name: fname, Sort: fsort, Go: f.Type(), Sel: key + "." + sanitize(fname)}
		s.Fields = append(s.Fields, fl)
		fs = append(fs, fmt.Sprintf("(%s %s)", fl.Sel, fsort.Name))
	}
	delete(busy, key)
	c.sorts[key] = s
	if len(fs) == 0 {
		c.emit(fmt.Sprintf("(declare-datatypes ((%s 0)) (((%s))))", key, s.Ctor))
	} else {
		c.emit(fmt.Sprintf("(declare-datatypes ((%s 0)) (((%s %s))))", key, s.Ctor, strings.Join(fs, " ")))
	}
	return s
}

// ---- integer helpers ---------------------------------------------------

type intInfo struct {
	bits     int
	unsigned bool
}

func intInfoOf(t types.Type) (intInfo, bool) {
	if t == nil {
		return intInfo{}, false
	}
	b, ok := types.Unalias(t).Underlying().(*types.Basic)
	if !ok || b.Info()&types.IsInteger == 0 {
		return intInfo{}, false
	}
	switch b.Kind() {
	case types.Int, types.Int64, types.UntypedInt, types.UntypedRune:
		return intInfo{64, false}, true
	case types.Int32:
		return intInfo{32, false}, true
	case types.Int16:
		return intInfo{16, false}, true
	case types.Int8:
		return intInfo{8, false}, true
	case types.Uint, types.Uint64, types.Uintptr:
		return intInfo{64, true}, true
	case types.Uint32:
		return intInfo{32, true}, true
	case types.Uint16:
		return intInfo{16, true}, true
	case types.Uint8:
		return intInfo{8, true}, true
	}
	return intInfo{}, false
}

func pow2(n int) *big.Int { return new(big.Int).Lsh(big.NewInt(1), uint(n)) }

func rangeFact(t Term, ii intInfo) Term {
	if ii.unsigned {
		return tAnd(app(sortBool, "<=", tInt(0), t), app(sortBool, "<", t, tBig(pow2(ii.bits))))
	}
	h := pow2(ii.bits - 1)
	return tAnd(app(sortBool, "<=", tBig(new(big.Int).Neg(h)), t), app(sortBool, "<", t, tBig(h)))
}

func wrapInt(t Term, ii intInfo) Term {
	if ii.unsigned {
		r := app(sortInt, "mod", t, tBig(pow2(ii.bits)))
		return r
	}
	return app(sortInt, "go.wrapS", t, tBig(pow2(ii.bits-1)))
}

// typeFacts returns the well-formedness facts implied by a Go type for a value term
// (integer ranges, non-negative lengths); shallow for containers, with a quantified
// element fact for slices of integers.
func (c *Ctx) typeFacts(t Term, gt types.Type, depth int) Term {
	return c.typeFactsQ(t, gt, 1, 0)
}

// typeFactsQ: q is the remaining budget of nested quantifiers (slice elements, map values).
func (c *Ctx) typeFactsQ(t Term, gt types.Type, q int, depth int) Term {
	if gt == nil || depth > 8 {
		return tTrue
	}
	gt = types.Unalias(gt)
	if ii, ok := intInfoOf(gt); ok && t.Sort.Kind == KInt {
		return rangeFact(t, ii)
	}
	switch t.Sort.Kind {
	case KSlice:
		facts := []Term{app(sortBool, "<=", tInt(0), c.slLen(t))}
		var et types.Type
		switch u := gt.Underlying().(type) {
		case *types.Slice:
			et = u.Elem()
		case *types.Array:
			et = u.Elem()
			facts = append(facts, tEq(c.slLen(t), tInt(u.Len())))
		}
		if et != nil && q > 0 {
			jn := fmt.Sprintf("j!q%d", depth)
			j := Term{S: jn, Sort: sortInt}
			ef := c.typeFactsQ(c.slAt(t, j), et, q-1, depth+1)
			if ef.S != "true" {
				facts = append(facts, Term{S: quantPat(fmt.Sprintf("(%s Int)", jn), ef.S, c.slAt(t, j).S), Sort: sortBool})
			}
		}
		return tAnd(facts...)
	case KMap:
		facts := []Term{app(sortBool, "<=", tInt(0), c.mapCard(t))}
		facts = append(facts, tImp(c.mapNil(t), tEq(c.mapCard(t), tInt(0))))
		// a map holding a key has at least one element (cardinality is otherwise an abstract integer)
		kq := fmt.Sprintf("k!h%d", depth)
		facts = append(facts, Term{S: quantPat(fmt.Sprintf("(%s %s)", kq, t.Sort.Key.Name), fmt.Sprintf("(=> (select %s %s) (>= %s 1))", c.mapDom(t).S, kq, c.mapCard(t).S), fmt.Sprintf("(select %s %s)", c.mapDom(t).S, kq)), Sort: sortBool})
		if m, ok := gt.Underlying().(*types.Map); ok && q > 0 {
			kn := fmt.Sprintf("k!q%d", depth)
			k := Term{S: kn, Sort: t.Sort.Key}
			ef := c.typeFactsQ(c.mapVal(t, k), m.Elem(), q-1, depth+1)
			if ef.S != "true" {
				facts = append(facts, Term{S: quantPat(fmt.Sprintf("(%s %s)", kn, t.Sort.Key.Name), ef.S, c.mapVal(t, k).S), Sort: sortBool})
			}
		}
		return tAnd(facts...)
	case KStruct:
		var facts []Term
		for _, f := range t.Sort.Fields {
			if f.Go == nil {
				continue
			}
			facts = append(facts, c.typeFactsQ(app(f.Sort, f.Sel, t), f.Go, q, depth+1))
		}
		return tAnd(facts...)
	case KPtr:
		if p, ok := gt.Underlying().(*types.Pointer); ok {
			inner := c.typeFactsQ(c.ptrVal(t), p.Elem(), q, depth+1)
			return tImp(tNot(c.ptrIsNil(t)), inner)
		}
	}
	return tTrue
}

// ---- container accessors -------------------------------------------------

func (c *Ctx) slLen(s Term) Term { return app(sortInt, s.Sort.Name+".len", s) }
func (c *Ctx) slArr(s Term) Term {
	return app(c.arrSort(sortInt, s.Sort.Elem), s.Sort.Name+".arr", s)
}
func (c *Ctx) slAt(s, i Term) Term { return app(s.Sort.Elem, "select", c.slArr(s), i) }
func (c *Ctx) mkSlice(srt *Sort, ln, arr Term) Term {
	return app(srt, srt.Ctor, ln, arr)
}

func (c *Ctx) mapDom(m Term) Term  { return app(c.setSort(m.Sort.Key), m.Sort.Name+".dom", m) }
func (c *Ctx) mapVals(m Term) Term { return app(c.arrSort(m.Sort.Key, m.Sort.Elem), m.Sort.Name+".val", m) }
func (c *Ctx) mapCard(m Term) Term { return app(sortInt, m.Sort.Name+".card", m) }
func (c *Ctx) mapNil(m Term) Term  { return app(sortBool, m.Sort.Name+".nil", m) }
func (c *Ctx) mapHas(m, k Term) Term {
	return app(sortBool, "select", c.mapDom(m), k)
}
func (c *Ctx) mapVal(m, k Term) Term { return app(m.Sort.Elem, "select", c.mapVals(m), k) }
func (c *Ctx) mkMap(srt *Sort, dom, val, card, isnil Term) Term {
	return app(srt, srt.Ctor, dom, val, card, isnil)
}

func (c *Ctx) ptrIsNil(p Term) Term { return app(sortBool, "(_ is nil."+p.Sort.Name+")", p) }
func (c *Ctx) ptrVal(p Term) Term   { return app(p.Sort.Elem, p.Sort.Name+".val", p) }
func (c *Ctx) ptrRef(p Term) Term   { return app(sortInt, p.Sort.Name+".ref", p) }
func (c *Ctx) mkPtr(srt *Sort, ref, v Term) Term {
	return app(srt, srt.Ctor, ref, v)
}
func (c *Ctx) nilPtr(srt *Sort) Term { return Term{S: "nil." + srt.Name, Sort: srt} }

// recBridge: a recursive struct type T is cut at its second occurrence by the opaque sort O_rec_T. The two
// views of a T value are related by a bijection (recwrap / recunwrap), so pointers can move between a
// field of sort Ptr_O_rec_T and a variable of sort Ptr_S_T without losing identity.
func (c *Ctx) recBridge(full, rec *Sort) (wrap, unwrap string) {
	wrap, unwrap = "recwrap."+sanitize(full.Name), "recunwrap."+sanitize(full.Name)
	if !c.declared[wrap] {
		c.declared[wrap] = true
		c.emit(fmt.Sprintf("(declare-fun %s (%s) %s)", wrap, full.Name, rec.Name))
		c.emit(fmt.Sprintf("(declare-fun %s (%s) %s)", unwrap, rec.Name, full.Name))
		c.emit(fmt.Sprintf("(assert (forall ((v %s)) (! (= (%s (%s v)) v) :pattern ((%s v)))))", full.Name, unwrap, wrap, wrap))
		c.emit(fmt.Sprintf("(assert (forall ((o %s)) (! (= (%s (%s o)) o) :pattern ((%s o)))))", rec.Name, wrap, unwrap, unwrap))
	}
	return
}

// recFull converts a pointer to the cut view of a recursive struct into a pointer to its full view (if declared).
func (c *Ctx) recFull(t Term) Term {
	if t.Sort.Kind == KPtr && t.Sort.Elem.Kind == KOpaque && strings.HasPrefix(t.Sort.Elem.Name, "O_rec_") {
		if full, ok := c.sorts["S_"+strings.TrimPrefix(t.Sort.Elem.Name, "O_rec_")]; ok {
			if r, ok := c.recPtrConv(t, c.ptrSort(full)); ok {
				return r
			}
		}
	}
	return t
}

// recPtrConv converts a pointer between the full and the cut view of a recursive struct (nil iff t is nil, same reference).
func (c *Ctx) recPtrConv(t Term, want *Sort) (Term, bool) {
	if t.Sort.Kind != KPtr || want.Kind != KPtr {
		return t, false
	}
	from, to := t.Sort.Elem, want.Elem
	isRec := func(o, s *Sort) bool {
		return o.Kind == KOpaque && s.Kind == KStruct && o.Name == "O_rec_"+strings.TrimPrefix(s.Name, "S_")
	}
	var conv string
	switch {
	case isRec(to, from):
		conv, _ = c.recBridge(from, to)
	case isRec(from, to):
		_, conv = c.recBridge(to, from)
	default:
		return t, false
	}
	r := tIte(c.ptrIsNil(t), c.nilPtr(want), c.mkPtr(want, c.ptrRef(t), app(to, conv, c.ptrVal(t))))
	r.Go = t.Go
	return r, true
}

// updField rebuilds a datatype value with one field replaced.
func (c *Ctx) updField(v Term, fname string, nv Term) Term {
	args := make([]Term, len(v.Sort.Fields))
	for i, f := range v.Sort.Fields {
		if f.Name == fname {
			args[i] = nv
		} else {
			args[i] = app(f.Sort, f.Sel, v)
		}
	}
	return app(v.Sort, v.Sort.Ctor, args...)
}

// zero value of a sort (Go zero value).
func (c *Ctx) zero(s *Sort, gt types.Type) Term {
	switch s.Kind {
	case KInt:
		return Term{S: "0", Sort: sortInt, Go: gt}
	case KBool:
		return tFalse
	case KStr:
		return Term{S: "gs.empty", Sort: sortStr}
	case KErr:
		return Term{S: "err.nil", Sort: sortErr}
	case KPtr:
		return c.nilPtr(s)
	case KSlice:
		if gt != nil {
			if a, ok := types.Unalias(gt).Underlying().(*types.Array); ok {
				// arrays: fixed length, zero elements
				arr := c.constArr(c.arrSort(sortInt, s.Elem), c.zero(s.Elem, a.Elem())).S
				return Term{S: fmt.Sprintf("(%s %d %s)", s.Ctor, a.Len(), arr), Sort: s, Go: gt}
			}
		}
		n := "zero." + s.Name
		if !c.declared[n] {
			c.declared[n] = true
			c.emit(fmt.Sprintf("(declare-const %s %s)", n, s.Name))
			c.emit(fmt.Sprintf("(assert (= (%s.len %s) 0))", s.Name, n))
		}
		return Term{S: n, Sort: s}
	case KMap:
		n := "zero." + s.Name
		if !c.declared[n] {
			c.declared[n] = true
			c.emit(fmt.Sprintf("(declare-const %s %s)", n, s.Name))
			c.emit(fmt.Sprintf("(assert (and (= (%s.card %s) 0) (%s.nil %s) (= (%s.dom %s) ((as const (Array %s Bool)) false))))", s.Name, n, s.Name, n, s.Name, n, s.Key.Name))
		}
		return Term{S: n, Sort: s}
	case KStruct:
		if s.Name == "Time" {
			return app(s, s.Ctor, Term{S: "time.zero", Sort: sortInt})
		}
		if len(s.Fields) == 0 {
			return Term{S: s.Ctor, Sort: s}
		}
		args := make([]Term, len(s.Fields))
		for i, f := range s.Fields {
			args[i] = c.zero(f.Sort, f.Go)
		}
		return app(s, s.Ctor, args...)
	case KSet:
		return Term{S: fmt.Sprintf("((as const %s) false)", s.Name), Sort: s}
	}
	n := "zero." + sanitize(s.Name)
	if !c.declared[n] {
		c.declared[n] = true
		c.emit(fmt.Sprintf("(declare-const %s %s)", n, s.Name))
	}
	return Term{S: n, Sort: s}
}

// strLit returns the constant for a Go string literal; literals are pairwise distinct
// and their length and bytes are axiomatised.
func (c *Ctx) strLit(v string) Term {
	if v == "" {
		return Term{S: "gs.empty", Sort: sortStr}
	}
	if t, ok := c.strLits[v]; ok {
		return t
	}
	n := fmt.Sprintf("gs.lit%d", len(c.strLits))
	c.emit(fmt.Sprintf("(declare-const %s Str) ; %q", n, v))
	c.emit(fmt.Sprintf("(assert (= (gs.len %s) %d))", n, len(v)))
	if len(v) <= 64 {
		for i := 0; i < len(v); i++ {
			c.emit(fmt.Sprintf("(assert (= (gs.at %s %d) %d))", n, i, v[i]))
		}
	}
	for _, o := range c.strOrder {
		if len(o) == len(v) { // different lengths are already distinguished by str.len
			c.emit(fmt.Sprintf("(assert (not (= %s %s)))", n, c.strLits[o].S))
		}
	}
	t := Term{S: n, Sort: sortStr}
	c.strLits[v] = t
	c.strOrder = append(c.strOrder, v)
	return t
}

// global returns the constant standing for a package-level variable.
func (c *Ctx) global(obj *types.Var) Term {
	key := obj.Pkg().Name() + "." + obj.Name()
	if t, ok := c.globals[key]; ok {
		return t
	}
	s := c.sortOf(obj.Type())
	n := "g." + sanitize(key)
	c.emit(fmt.Sprintf("(declare-const %s %s)", n, s.Name))
	t := Term{S: n, Sort: s, Go: obj.Type()}
	if s.Kind == KErr {
		// package-level error values: non-nil and pairwise distinct (trusted: they are created by errors.New at init)
		c.emit(fmt.Sprintf("(assert (not (= %s err.nil)))", n))
		var names []string
		for k, g := range c.globals {
			if g.Sort.Kind == KErr {
				names = append(names, k)
			}
		}
		sort.Strings(names)
		for _, k := range names {
			c.emit(fmt.Sprintf("(assert (not (= %s %s)))", n, c.globals[k].S))
		}
	}
	c.globals[key] = t
	return t
}

func (c *Ctx) script() string { return strings.Join(c.decls, "\n") + "\n" }

// quantPat builds a universally quantified fact with a trigger, unless the trigger would be illegal (contains ite).
func quantPat(binder, body, pat string) string {
	if strings.Contains(pat, "(ite ") || strings.Contains(pat, "(=> ") || strings.Contains(pat, "!") && strings.Count(pat, "!") > 1 {
		return fmt.Sprintf("(forall (%s) %s)", binder, body)
	}
	return fmt.Sprintf("(forall (%s) (! %s :pattern (%s)))", binder, body, pat)
}

// constArr: the array mapping every index to v. cvc5 only accepts value constants in (as const ...),
// so for other element terms a fresh array with a quantified definition is used.
func (c *Ctx) constArr(arrSort *Sort, v Term) Term {
	simple := v.S == "true" || v.S == "false"
	if !simple {
		if _, err := fmt.Sscanf(v.S, "%d", new(int64)); err == nil && !strings.ContainsAny(v.S, " (") {
			simple = true
		}
	}
	if simple {
		return Term{S: fmt.Sprintf("((as const %s) %s)", arrSort.Name, v.S), Sort: arrSort}
	}
	key := "constarr." + arrSort.Name + "." + v.S
	if t, ok := c.globals[key]; ok {
		return t
	}
	a := c.fresh("constarr", arrSort)
	c.emit(fmt.Sprintf("(assert (forall ((k!c %s)) (! (= (select %s k!c) %s) :pattern ((select %s k!c)))))", arrSort.Key.Name, a.S, v.S, a.S))
	c.globals[key] = a
	return a
}

// opaqueIsNil: nil-ness of interface / function / channel values is an uninterpreted predicate that holds for the zero value.
func (c *Ctx) opaqueIsNil(v Term) Term {
	fn := "isnil." + v.Sort.Name
	if !c.declared[fn] {
		c.declared[fn] = true
		c.emit(fmt.Sprintf("(declare-fun %s (%s) Bool)", fn, v.Sort.Name))
		z := c.zero(v.Sort, nil)
		c.emit(fmt.Sprintf("(assert (%s %s))", fn, z.S))
	}
	return app(sortBool, fn, v)
}

// boxFns declares the injection of a concrete sort into an interface sort together with its partial inverse.
func (c *Ctx) boxFns(from, iface *Sort) (box, unbox, is string) {
	tag := sanitize(from.Name) + "." + sanitize(iface.Name)
	box, unbox, is = "box."+tag, "unbox."+tag, "is."+tag
	if !c.declared[box] {
		c.declared[box] = true
		c.emit(fmt.Sprintf("(declare-fun %s (%s) %s)", box, from.Name, iface.Name))
		c.emit(fmt.Sprintf("(declare-fun %s (%s) %s)", unbox, iface.Name, from.Name))
		c.emit(fmt.Sprintf("(declare-fun %s (%s) Bool)", is, iface.Name))
		c.emit(fmt.Sprintf("(assert (forall ((v %s)) (! (and (= (%s (%s v)) v) (%s (%s v))) :pattern ((%s v)))))", from.Name, unbox, box, is, box, box))
		c.emit(fmt.Sprintf("(assert (forall ((i %s)) (! (=> (%s i) (= (%s (%s i)) i)) :pattern ((%s i)))))", iface.Name, is, box, unbox, unbox))
		z := c.zero(iface, nil)
		c.emit(fmt.Sprintf("(assert (not (%s %s)))", is, z.S))
		// a boxed value is a non-nil interface
		nilp := c.opaqueIsNil(Term{S: "i", Sort: iface})
		c.emit(fmt.Sprintf("(assert (forall ((i %s)) (! (=> (%s i) (not %s)) :pattern ((%s i)))))", iface.Name, is, nilp.S, is))
	}
	return
}
