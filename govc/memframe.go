package main

// Memory-frame obligations ("nowrite p"): the function performs no in-place write to a backing array that is
// reachable from parameter (or receiver) p.
//
// The symbolic execution gives slices value semantics (DESIGN.md section 3), so it cannot see a write through an
// alias: `x := p.Tokens[:0]; x = append(x, t)` overwrites memory that other holders of p.Tokens still read. This
// obligation closes that hole for the functions that declare it. It is a conservative, flow-insensitive analysis of
// the typed AST:
//
//   derived(e)  e may share a backing array with memory reachable from p: p itself, fields / elements / sub-slices
//               of a derived value, local variables assigned (anywhere in the function) from a derived value,
//               append(d, ...) for derived d, results of calls that receive a derived argument and can return
//               references. Fresh: make, new, composite literals of fresh parts, append(nil/fresh, values...).
//   write sites d[i] = v, d[i]++, append(d, ...) (unless d is a full slice expression d[l:h:h]), copy(d, ...),
//               in-place sorts of d, and passing d to a function of this module whose contract does not itself
//               promise `nowrite` for that parameter (or `modifies nothing` / `pure`).
//
// Every offending site is one failed syntactic obligation; without offenders one discharged obligation records how
// many write sites were examined.

import (
	"fmt"
	"go/ast"
	"go/token"
	"go/types"
	"sort"
	"strings"
)

func hasRefs(t types.Type, depth int) bool {
	if t == nil || depth > 6 {
		return true
	}
	switch u := t.Underlying().(type) {
	case *types.Basic:
		return u.Kind() == types.UnsafePointer
	case *types.Slice, *types.Map, *types.Pointer, *types.Interface, *types.Chan, *types.Signature:
		return true
	case *types.Array:
		return hasRefs(u.Elem(), depth+1)
	case *types.Struct:
		for i := 0; i < u.NumFields(); i++ {
			if hasRefs(u.Field(i).Type(), depth+1) {
				return true
			}
		}
		return false
	case *types.Tuple:
		for i := 0; i < u.Len(); i++ {
			if hasRefs(u.At(i).Type(), depth+1) {
				return true
			}
		}
		return false
	}
	return true
}

func (x *Exec) memFrame(ftype *ast.FuncType, fd *ast.FuncDecl, body *ast.BlockStmt) {
	info := x.info
	for _, pname := range x.ct.NoWrite {
		contractName := pname // obligation names keep the name the contract uses
		if nw, ok := x.aliases[pname]; ok {
			pname = nw
		}
		var root types.Object
		find := func(fl *ast.FieldList) {
			if fl == nil {
				return
			}
			for _, f := range fl.List {
				for _, n := range f.Names {
					if n.Name == pname {
						root = info.Defs[n]
					}
				}
			}
		}
		find(ftype.Params)
		if fd != nil {
			find(fd.Recv)
		}
		if root == nil {
			panic(unsupported{fmt.Sprintf("%s: nowrite names %q, which is not a parameter or receiver (anchor lost)", x.fullKey, pname)})
		}
		tainted := map[types.Object]bool{root: true}
		var derived func(e ast.Expr) bool
		derived = func(e ast.Expr) bool {
			if e == nil {
				return false
			}
			if t := info.TypeOf(e); t != nil && !hasRefs(t, 0) {
				return false
			}
			switch v := e.(type) {
			case *ast.Ident:
				if o := info.Uses[v]; o != nil {
					return tainted[o]
				}
				if o := info.Defs[v]; o != nil {
					return tainted[o]
				}
				return false
			case *ast.ParenExpr:
				return derived(v.X)
			case *ast.SelectorExpr:
				if _, isPkg := info.Uses[identOf(v.X)].(*types.PkgName); isPkg {
					return false
				}
				return derived(v.X)
			case *ast.IndexExpr:
				return derived(v.X)
			case *ast.SliceExpr:
				return derived(v.X)
			case *ast.StarExpr:
				return derived(v.X)
			case *ast.UnaryExpr:
				return derived(v.X)
			case *ast.TypeAssertExpr:
				return derived(v.X)
			case *ast.CompositeLit:
				for _, el := range v.Elts {
					if kv, ok := el.(*ast.KeyValueExpr); ok {
						if derived(kv.Value) || derived(kv.Key) {
							return true
						}
					} else if derived(el) {
						return true
					}
				}
				return false
			case *ast.CallExpr:
				if tv, ok := info.Types[v.Fun]; ok && tv.IsType() {
					return len(v.Args) == 1 && derived(v.Args[0])
				}
				if id := identOf(v.Fun); id != nil {
					if b, ok := info.Uses[id].(*types.Builtin); ok {
						switch b.Name() {
						case "append":
							if derived(v.Args[0]) {
								return true
							}
							for _, a := range v.Args[1:] {
								// appended values are copied; they alias only if the element type holds references
								if st, ok := info.TypeOf(v.Args[0]).Underlying().(*types.Slice); ok && hasRefs(st.Elem(), 0) && derived(a) {
									return true
								}
							}
							return false
						case "make", "new", "len", "cap", "copy", "delete", "min", "max":
							return false
						}
					}
				}
				for _, a := range v.Args {
					if derived(a) {
						return true
					}
				}
				if se, ok := ast.Unparen(v.Fun).(*ast.SelectorExpr); ok {
					if _, isPkg := info.Uses[identOf(se.X)].(*types.PkgName); !isPkg && derived(se.X) {
						return true // method on a derived receiver
					}
				}
				return false
			}
			return false
		}
		rootOf := func(e ast.Expr) types.Object {
			for {
				switch v := ast.Unparen(e).(type) {
				case *ast.Ident:
					if o := info.Uses[v]; o != nil {
						return o
					}
					return info.Defs[v]
				case *ast.SelectorExpr:
					e = v.X
				case *ast.IndexExpr:
					e = v.X
				case *ast.StarExpr:
					e = v.X
				case *ast.SliceExpr:
					e = v.X
				default:
					return nil
				}
			}
		}
		taint := func(lhs ast.Expr) bool {
			o := rootOf(lhs)
			if o == nil || tainted[o] {
				return false
			}
			if v, ok := o.(*types.Var); !ok || v.IsField() || (v.Pkg() != nil && v.Parent() == v.Pkg().Scope()) {
				return false
			}
			tainted[o] = true
			return true
		}
		for changed := true; changed; {
			changed = false
			ast.Inspect(body, func(n ast.Node) bool {
				switch s := n.(type) {
				case *ast.AssignStmt:
					if len(s.Lhs) == len(s.Rhs) {
						for i := range s.Lhs {
							if derived(s.Rhs[i]) && taint(s.Lhs[i]) {
								changed = true
							}
						}
					} else if len(s.Rhs) == 1 && derived(s.Rhs[0]) {
						for _, l := range s.Lhs {
							if t := info.TypeOf(l); t != nil && hasRefs(t, 0) && taint(l) {
								changed = true
							}
						}
					}
				case *ast.RangeStmt:
					if derived(s.X) {
						for _, l := range []ast.Expr{s.Key, s.Value} {
							if l != nil {
								if t := info.TypeOf(l); t != nil && hasRefs(t, 0) && taint(l) {
									changed = true
								}
							}
						}
					}
				case *ast.ValueSpec:
					for i, nm := range s.Names {
						if i < len(s.Values) && derived(s.Values[i]) && taint(nm) {
							changed = true
						}
					}
				}
				return true
			})
		}
		// write sites
		var offenders []string
		sites := 0
		isSlice := func(e ast.Expr) bool {
			t := info.TypeOf(e)
			if t == nil {
				return false
			}
			switch u := t.Underlying().(type) {
			case *types.Slice:
				return true
			case *types.Pointer:
				_, ok := u.Elem().Underlying().(*types.Array)
				return ok
			}
			return false
		}
		flag := func(n ast.Node, what string) {
			offenders = append(offenders, fmt.Sprintf("%s at %s", what, strings.TrimPrefix(x.fset.Position(n.Pos()).String(), repoDir+"/")))
		}
		elemWrite := func(l ast.Expr) {
			if ie, ok := ast.Unparen(l).(*ast.IndexExpr); ok && isSlice(ie.X) {
				sites++
				if derived(ie.X) {
					flag(l, "element write "+x.exprText(l))
				}
			}
		}
		ast.Inspect(body, func(n ast.Node) bool {
			switch s := n.(type) {
			case *ast.AssignStmt:
				for _, l := range s.Lhs {
					elemWrite(l)
				}
			case *ast.IncDecStmt:
				elemWrite(s.X)
			case *ast.CallExpr:
				if tv, ok := info.Types[s.Fun]; ok && tv.IsType() {
					return true
				}
				if id := identOf(s.Fun); id != nil {
					if b, ok := info.Uses[id].(*types.Builtin); ok {
						switch b.Name() {
						case "append":
							sites++
							if derived(s.Args[0]) {
								if se, ok := ast.Unparen(s.Args[0]).(*ast.SliceExpr); ok && se.Slice3 && se.Max != nil && se.High != nil && x.exprText(se.Max) == x.exprText(se.High) {
									return true // capacity == length: append must reallocate
								}
								flag(s, "append may write in place into "+x.exprText(s.Args[0]))
							}
						case "copy":
							sites++
							if derived(s.Args[0]) {
								flag(s, "copy into "+x.exprText(s.Args[0]))
							}
						case "clear":
							if isSlice(s.Args[0]) {
								sites++
								if derived(s.Args[0]) {
									flag(s, "clear of "+x.exprText(s.Args[0]))
								}
							}
						}
						return true
					}
				}
				fn := x.callee(s)
				if fn == nil || fn.Pkg() == nil {
					return true
				}
				q := fn.Pkg().Name() + "." + fn.Name()
				switch q {
				case "sort.Sort", "sort.Stable", "sort.Slice", "sort.SliceStable", "sort.Strings", "sort.Ints", "slices.Sort", "slices.SortFunc", "slices.SortStableFunc", "slices.Reverse", "rand.Shuffle", "natsort.Sort":
					if len(s.Args) > 0 {
						sites++
						if derived(s.Args[0]) {
							flag(s, q+" reorders "+x.exprText(s.Args[0])+" in place")
						}
					}
					return true
				}
				if !strings.HasPrefix(fn.Pkg().Path(), modPath) {
					return true
				}
				// a function of this module receiving derived memory must promise the same frame
				var args []ast.Expr
				var names []string
				sig, _ := fn.Type().(*types.Signature)
				if sig == nil {
					return true
				}
				if sig.Recv() != nil {
					if se, ok := ast.Unparen(s.Fun).(*ast.SelectorExpr); ok {
						args = append(args, se.X)
						names = append(names, sig.Recv().Name())
					}
				}
				for i, a := range s.Args {
					args = append(args, a)
					pi := i
					if pi >= sig.Params().Len() {
						pi = sig.Params().Len() - 1
					}
					if pi >= 0 {
						names = append(names, sig.Params().At(pi).Name())
					} else {
						names = append(names, "?")
					}
				}
				cct, _, _ := x.w.contractFor(x.u.pkg, fn)
				for i, a := range args {
					if !derived(a) {
						continue
					}
					sites++
					ok := false
					if cct != nil {
						if cct.Pure || (len(cct.Modifies) == 1 && cct.Modifies[0] == "nothing") {
							ok = true
						}
						for _, nw := range cct.NoWrite {
							if nw == names[i] {
								ok = true
							}
						}
					}
					if !ok {
						flag(s, fmt.Sprintf("%s receives %s but its contract promises no memory frame for parameter %s", funcKey(fn), x.exprText(a), names[i]))
					}
				}
			}
			return true
		})
		_ = token.NoPos
		if len(offenders) == 0 {
			x.obls = append(x.obls, &Obligation{Name: x.fullKey + "#memframe:" + contractName, Kind: "frame", Func: x.fullKey, PC: tTrue, Goal: tTrue, syntactic: true,
				Text: fmt.Sprintf("no in-place write to a backing array reachable from %s (%d write sites examined)", pname, sites)})
			continue
		}
		for i, o := range offenders {
			x.obls = append(x.obls, &Obligation{Name: fmt.Sprintf("%s#memframe:%s:%d", x.fullKey, contractName, i), Kind: "frame", Func: x.fullKey, PC: tTrue, Goal: tFalse, syntactic: true,
				Text: fmt.Sprintf("in-place write to memory reachable from %s: %s (whoever else holds that memory would see it change)", pname, o)})
		}
	}
}

func identOf(e ast.Expr) *ast.Ident {
	id, _ := ast.Unparen(e).(*ast.Ident)
	return id
}

// sharedAppend: zero-annotation sweep for the aliasing that value semantics of slices cannot see (seeded change C10-3):
// several chunks are carved out of one buffer with two-index slice expressions (b[:0], b[k:], b[i:j] - capacity reaches to
// the end of b) and one of the chunks is later grown with append, which then writes into the memory of the next chunk
// instead of reallocating. Field-based and flow-insensitive:
//
//   carve        a two-index slice expression of a local slice variable / parameter b that is stored somewhere other than
//                b itself (variable, field, element, composite-literal field); `b = b[k:]` is a self-reslice
//   carved base  b with at least one carve and at least two carve-or-self-reslice sites (a site inside a loop counts twice)
//   chunk        anything a carve of a carved base may have been stored in, closed under assignment, field selection by
//                field object, element selection and append's result
//   offender     append(c, ...) for a chunk c
//
// One obligation per carved base: `#appendalias:<b>`. Three-index slices (b[i:j:j]) are not carves.
func (x *Exec) sharedAppend(body *ast.BlockStmt) {
	info := x.info
	type siteInfo struct {
		other, self int
	}
	objOfIdent := func(e ast.Expr) types.Object {
		id := identOf(e)
		if id == nil {
			return nil
		}
		if o := info.Uses[id]; o != nil {
			return o
		}
		return info.Defs[id]
	}
	isLocalSlice := func(o types.Object) bool {
		v, ok := o.(*types.Var)
		if !ok || v.IsField() || (v.Pkg() != nil && v.Parent() == v.Pkg().Scope()) {
			return false
		}
		_, ok = v.Type().Underlying().(*types.Slice)
		return ok
	}
	// target object of an assignment's left-hand side: variable, or field object for x.f, or root variable for x[i]
	var target func(l ast.Expr) types.Object
	target = func(l ast.Expr) types.Object {
		switch v := ast.Unparen(l).(type) {
		case *ast.Ident:
			return objOfIdent(v)
		case *ast.SelectorExpr:
			if s, ok := info.Selections[v]; ok {
				return s.Obj()
			}
			return info.Uses[v.Sel]
		case *ast.IndexExpr:
			return target(v.X)
		case *ast.StarExpr:
			return target(v.X)
		}
		return nil
	}
	carveBase := func(e ast.Expr) types.Object {
		se, ok := ast.Unparen(e).(*ast.SliceExpr)
		if !ok || se.Slice3 {
			return nil
		}
		o := objOfIdent(se.X)
		if o == nil || !isLocalSlice(o) {
			return nil
		}
		return o
	}
	sites := map[types.Object]*siteInfo{}
	type store struct {
		dst types.Object
		rhs ast.Expr
	}
	var stores []store
	var walk func(n ast.Node, depth int)
	record := func(dst types.Object, rhs ast.Expr, depth int) {
		if dst == nil || rhs == nil {
			return
		}
		stores = append(stores, store{dst, rhs})
		if b := carveBase(rhs); b != nil {
			si := sites[b]
			if si == nil {
				si = &siteInfo{}
				sites[b] = si
			}
			w := 1
			if depth > 0 {
				w = 2
			}
			if dst == b {
				si.self += w
			} else {
				si.other += w
			}
		}
	}
	walk = func(n ast.Node, depth int) {
		ast.Inspect(n, func(m ast.Node) bool {
			switch s := m.(type) {
			case *ast.ForStmt:
				if s != n {
					walk(s, depth+1)
					return false
				}
			case *ast.RangeStmt:
				if s != n {
					walk(s, depth+1)
					return false
				}
			case *ast.AssignStmt:
				if len(s.Lhs) == len(s.Rhs) {
					for i := range s.Lhs {
						record(target(s.Lhs[i]), s.Rhs[i], depth)
					}
				}
			case *ast.ValueSpec:
				for i, nm := range s.Names {
					if i < len(s.Values) {
						record(info.Defs[nm], s.Values[i], depth)
					}
				}
			case *ast.CompositeLit:
				for _, el := range s.Elts {
					if kv, ok := el.(*ast.KeyValueExpr); ok {
						if id, ok := kv.Key.(*ast.Ident); ok {
							if f, ok := info.Uses[id].(*types.Var); ok && f.IsField() {
								record(f, kv.Value, depth)
							}
						}
					}
				}
			}
			return true
		})
	}
	walk(body, 0)
	carved := map[types.Object]bool{}
	for b, si := range sites {
		if si.other >= 1 && si.other+si.self >= 2 {
			carved[b] = true
		}
	}
	if len(carved) == 0 {
		return
	}
	chunkOf := map[types.Object]types.Object{} // holder -> base
	var mayBeChunk func(e ast.Expr) types.Object
	mayBeChunk = func(e ast.Expr) types.Object {
		switch v := ast.Unparen(e).(type) {
		case *ast.Ident:
			if o := objOfIdent(v); o != nil {
				return chunkOf[o]
			}
		case *ast.SelectorExpr:
			if o := target(v); o != nil {
				return chunkOf[o]
			}
		case *ast.IndexExpr:
			if t := info.TypeOf(v); t != nil {
				if _, ok := t.Underlying().(*types.Slice); ok {
					return mayBeChunk(v.X)
				}
			}
		case *ast.SliceExpr:
			if b := carveBase(v); b != nil && carved[b] {
				return b
			}
			if !v.Slice3 {
				return mayBeChunk(v.X)
			}
		case *ast.CallExpr:
			if id := identOf(v.Fun); id != nil {
				if bi, ok := info.Uses[id].(*types.Builtin); ok && bi.Name() == "append" && len(v.Args) > 0 {
					return mayBeChunk(v.Args[0])
				}
			}
		}
		return nil
	}
	for changed := true; changed; {
		changed = false
		for _, st := range stores {
			b := mayBeChunk(st.rhs)
			if b == nil || st.dst == b || carved[st.dst] {
				continue
			}
			if _, ok := chunkOf[st.dst]; !ok {
				chunkOf[st.dst] = b
				changed = true
			}
		}
	}
	offenders := map[types.Object][]string{}
	ast.Inspect(body, func(m ast.Node) bool {
		c, ok := m.(*ast.CallExpr)
		if !ok {
			return true
		}
		if id := identOf(c.Fun); id != nil {
			if bi, ok := info.Uses[id].(*types.Builtin); ok && bi.Name() == "append" && len(c.Args) > 0 {
				if se, ok := ast.Unparen(c.Args[0]).(*ast.SliceExpr); ok && se.Slice3 {
					return true
				}
				if b := mayBeChunk(c.Args[0]); b != nil {
					offenders[b] = append(offenders[b], fmt.Sprintf("append(%s, ...) at %s", x.exprText(c.Args[0]), strings.TrimPrefix(x.fset.Position(c.Pos()).String(), repoDir+"/")))
				}
			}
		}
		return true
	})
	var bases []types.Object
	for b := range carved {
		bases = append(bases, b)
	}
	sort.Slice(bases, func(i, j int) bool { return bases[i].Pos() < bases[j].Pos() })
	for _, b := range bases {
		name := b.Name()
		for old, nw := range x.aliases { // obligation names keep the name recorded in the ledger
			if nw == name {
				name = old
			}
		}
		o := &Obligation{Name: x.fullKey + "#appendalias:" + name, Kind: "appendalias", Func: x.fullKey, PC: tTrue, Goal: tTrue, syntactic: true,
			Pos: strings.TrimPrefix(x.fset.Position(b.Pos()).String(), repoDir+"/"),
			Text: fmt.Sprintf("chunks carved out of %s with two-index slice expressions are never grown with append (their capacity reaches into the next chunk)", b.Name())}
		if offs := offenders[b]; len(offs) > 0 {
			o.Goal = tFalse
			o.Text = fmt.Sprintf("several chunks are carved out of %s with two-index slice expressions (capacity reaches to the end of %s) and a chunk is grown in place: %s - the append overwrites the next chunk instead of reallocating; use a three-index slice %s[i:j:j]", b.Name(), b.Name(), strings.Join(offs, "; "), b.Name())
		}
		x.obls = append(x.obls, o)
	}
}
