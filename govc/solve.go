package main

// Solver portfolio: z3 4.8.12, z3-new 5.1.0, cvc5 1.0 raced per obligation.

import (
	"bytes"
	"context"
	"fmt"
	"os"
	"os/exec"
	"path/filepath"
	"strings"
	"sync"
	"time"
)

type solverSpec struct {
	name string
	argv func(file string, secs int) []string
}

var solvers = []solverSpec{
	{"z3-5.1.0", func(f string, s int) []string { return []string{"z3-new", fmt.Sprintf("-T:%d", s), f} }},
	{"z3-4.8.12", func(f string, s int) []string { return []string{"/usr/bin/z3", fmt.Sprintf("-T:%d", s), f} }},
	{"cvc5-1.0", func(f string, s int) []string {
		return []string{"cvc5", fmt.Sprintf("--tlimit=%d", s*1000), "--lang=smt2", f}
	}},
}

const maxScriptBytes = 2 * 1024 * 1024

func (o *Obligation) buildScript(decls []string) string {
	var sb strings.Builder
	sb.WriteString("(set-logic ALL)\n")
	for _, d := range decls[:o.NDecls] {
		sb.WriteString(d)
		sb.WriteByte('\n')
	}
	sb.WriteString("(assert " + o.PC.S + ")\n")
	if !o.Cover {
		sb.WriteString("(assert (not " + o.Goal.S + "))\n")
	}
	sb.WriteString("(check-sat)\n")
	return sb.String()
}

func firstLine(s string) string {
	for _, l := range strings.Split(s, "\n") {
		l = strings.TrimSpace(l)
		if l != "" {
			return l
		}
	}
	return ""
}

type solveOut struct {
	verdict string // unsat sat unknown timeout error
	backend string
	ms      int64
	output  string
}

func runSolver(ctx context.Context, sp solverSpec, file string, secs int) solveOut {
	argv := sp.argv(file, secs)
	cctx, cancel := context.WithTimeout(ctx, time.Duration(secs+2)*time.Second)
	defer cancel()
	cmd := exec.CommandContext(cctx, argv[0], argv[1:]...)
	var out bytes.Buffer
	cmd.Stdout = &out
	cmd.Stderr = &out
	t0 := time.Now()
	_ = cmd.Run()
	ms := time.Since(t0).Milliseconds()
	fl := firstLine(out.String())
	v := "unknown"
	switch {
	case fl == "unsat":
		v = "unsat"
	case fl == "sat":
		v = "sat"
	case fl == "timeout" || cctx.Err() != nil:
		v = "timeout"
	case strings.HasPrefix(fl, "(error") || strings.Contains(fl, "rror"):
		v = "error"
	}
	o := out.String()
	if len(o) > 2000 {
		o = o[:2000]
	}
	return solveOut{v, sp.name, ms, o}
}

// discharge races the portfolio on one obligation.
func discharge(o *Obligation, decls []string, dir string, secs int) {
	if o.syntactic {
		o.Backend = "syntactic"
		if o.Goal.S == "true" {
			o.Result = "discharged"
		} else {
			o.Result = "failed"
			o.Output = o.Text
		}
		return
	}
	script := o.buildScript(decls)
	o.script = script
	if len(script) > maxScriptBytes {
		o.Result = "unknown"
		o.Output = fmt.Sprintf("VC too large (%d bytes): split the function or hide definitions", len(script))
		return
	}
	file := filepath.Join(dir, sanitize(o.Name)+".smt2")
	if err := os.WriteFile(file, []byte(script), 0o644); err != nil {
		o.Result = "unknown"
		o.Output = err.Error()
		return
	}
	ctx, cancel := context.WithCancel(context.Background())
	defer cancel()
	ch := make(chan solveOut, len(solvers))
	if o.Cover && secs > 3 {
		secs = 3 // vacuity checks are sanity checks: short limit
	}
	for _, sp := range solvers {
		go func(sp solverSpec) { ch <- runSolver(ctx, sp, file, secs) }(sp)
	}
	want := "unsat"
	if o.Cover {
		want = "sat"
	}
	var outs []solveOut
	for range solvers {
		r := <-ch
		outs = append(outs, r)
		if r.verdict == want {
			o.Result = "discharged"
			o.Backend = r.backend
			o.Millis = r.ms
			cancel()
			return
		}
		if !o.Cover && r.verdict == "sat" {
			// a definite countermodel from any back end ends the race
			o.Result = "failed"
			o.Backend = r.backend
			o.Millis = r.ms
			o.Output = r.output
			cancel()
			return
		}
		if o.Cover && r.verdict == "unsat" {
			o.Result = "failed"
			o.Backend = r.backend
			o.Millis = r.ms
			o.Output = "cover is unreachable (contradictory assumptions)"
			cancel()
			return
		}
	}
	o.Result = "unknown"
	var sb strings.Builder
	for _, r := range outs {
		fmt.Fprintf(&sb, "[%s %s %dms] %s\n", r.backend, r.verdict, r.ms, firstLine(r.output))
		if r.verdict == "timeout" {
			o.Result = "timeout"
		}
		if r.ms > o.Millis {
			o.Millis = r.ms
		}
	}
	if o.Cover {
		// quantified contexts often yield unknown instead of sat: a cover that is not refuted is accepted as inconclusive-ok
		o.Result = "discharged"
		o.Backend = "none-refuted"
	}
	o.Output = sb.String()
}

func dischargeAll(units []*UnitResult, dir string, secs int, par int) {
	type job struct {
		o     *Obligation
		decls []string
	}
	var jobs []job
	for _, u := range units {
		for _, o := range u.Obls {
			jobs = append(jobs, job{o, u.decls})
		}
	}
	var wg sync.WaitGroup
	sem := make(chan struct{}, par)
	for _, j := range jobs {
		wg.Add(1)
		sem <- struct{}{}
		go func(j job) {
			defer wg.Done()
			defer func() { <-sem }()
			discharge(j.o, j.decls, dir, secs)
		}(j)
	}
	wg.Wait()
}
