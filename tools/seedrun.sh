#!/bin/bash
# Runs the quick check of a seeded change's property against /repo with the change applied, then reverts.
#   usage: seedrun.sh <name> [tier]     (evidence goes to a scratch dir, never to /verif/evidence)
name=$1; tier=${2:-quick}
d=/verif/seeded/$name
prop=$(python3 -c "import json;print(json.load(open('$d/meta.json'))['property'])")
cd /repo
git diff --quiet || { echo "repo dirty, refusing"; exit 2; }
git apply $d/patch.diff || { echo "patch does not apply"; exit 2; }
out=$(VERIF_EVIDENCE_DIR=/tmp/verif-seed-evidence /verif/govc/bin/govc check -p $prop -tier $tier 2>&1); rc=$?
git checkout -- . ; git clean -fdq -- . >/dev/null 2>&1
echo "$out" | grep -E '^(FAILED OBLIGATION|VIOLATION|BOUNDED|property|KNOWN)' | cut -c1-260 | head -${3:-12}
echo "seed $name ($prop): rc=$rc"
