#!/bin/bash
# Runs the check of a seeded change's property against a scratch git worktree of /repo with the change applied
# (/repo itself is never touched; evidence and replays go to scratch directories).
#   usage: seedrun.sh <name> [tier] [max output lines]
name=$1; tier=${2:-quick}
d=/verif/seeded/$name
prop=$(python3 -c "import json;print(json.load(open('$d/meta.json'))['property'])")
W=/tmp/verif-seed-repo-$$
git -C /repo worktree add -q --detach $W HEAD || exit 2
trap 'git -C /repo worktree remove --force $W >/dev/null 2>&1; rm -rf /tmp/verif-seed-evidence-$$ /tmp/verif-seed-replays-$$' EXIT
git -C $W apply $d/patch.diff || { echo "patch does not apply"; exit 2; }
out=$(VERIF_REPO=$W VERIF_EVIDENCE_DIR=/tmp/verif-seed-evidence-$$ VERIF_REPLAY_DIR=/tmp/verif-seed-replays-$$ /verif/govc/bin/govc check -p $prop -tier $tier 2>&1); rc=$?
echo "$out" | grep -E '^(FAILED OBLIGATION|VIOLATION|BOUNDED|property|KNOWN)' | cut -c1-260 | head -${3:-12}
echo "seed $name ($prop): rc=$rc"
