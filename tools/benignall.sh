#!/bin/bash
# Runs every behaviour-preserving diff under /verif/benign/*/ through benignrun.sh (3 at a time); all must pass (no alarm).
cd /verif
ls benign/*/benign-*.diff | xargs -P 3 -I{} bash -c 'f={}; tools/benignrun.sh /verif/$f "$(basename $(dirname $f))-$(basename $f .diff)"' > benign/RESULTS.txt.tmp
sort -V benign/RESULTS.txt.tmp > benign/RESULTS.txt; rm -f benign/RESULTS.txt.tmp
cat benign/RESULTS.txt
bad=$(grep -c '^FALSE-ALARM\|DOES NOT APPLY' benign/RESULTS.txt)
echo "alarms on harmless diffs: $bad"
[ $bad -eq 0 ]
