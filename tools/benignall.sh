#!/bin/bash
# Runs every behaviour-preserving diff under /verif/benign/*/ through benignrun.sh; all must pass (no alarm).
cd /verif
: > benign/RESULTS.txt.tmp
bad=0
for d in benign/*/; do
  for f in $d/benign-*.diff; do
    tools/benignrun.sh /verif/$f "$(basename $d)-$(basename $f .diff)" | tee -a benign/RESULTS.txt.tmp
    [ ${PIPESTATUS[0]} -eq 0 ] || bad=$((bad+1))
  done
done
mv benign/RESULTS.txt.tmp benign/RESULTS.txt
echo "diffs raising an alarm: $bad"
[ $bad -eq 0 ]
