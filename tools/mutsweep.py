#!/usr/bin/env python3
# Mutation sweep over the functions under contract: single-operator mutants (mutsweep) are applied in a scratch worktree and
# only the PROOF obligations of that function are re-run (govc verify). Survivors point at weak contracts (or equivalent
# mutants); the bounded harnesses are not consulted. usage: mutsweep.py <pkgdir> [funcname-regex]   (results on stdout)
import os, re, subprocess, sys, glob
pkg = sys.argv[1]; pat = re.compile(sys.argv[2]) if len(sys.argv) > 2 else None
W = '/tmp/sweepwt-%d' % os.getpid()
subprocess.run(['git', '-C', '/repo', 'worktree', 'add', '-q', '--detach', W, 'HEAD'], check=True)
env = dict(os.environ, VERIF_REPO=W, GOFLAGS='-mod=mod', GOPROXY='off', GOSUMDB='off', GOTOOLCHAIN='local')
def verify(func):
    r = subprocess.run(['/verif/govc/bin/govc', 'verify', '-pkg', pkg, '-func', func, '-t', '10'], capture_output=True, text=True, env=env, cwd='/verif')
    out = r.stdout + r.stderr
    fails = set(m.group(1) for m in re.finditer(r'^\s+FAIL (\S+)', out, re.M))
    err = 'rror' in out and '== ' not in out
    nob = sum(int(m.group(1)) for m in re.finditer(r'\) (\d+) obligations', out))
    return fails, err, nob, out
try:
    funcs = []
    for sc in glob.glob(os.path.join(W, pkg, 'zz_verif_contracts_*.go')):
        for m in re.finditer(r'^//@ func (\S+)', open(sc).read(), re.M):
            funcs.append(m.group(1))
    seen = set()
    for f in funcs:
        base = f.split('$')[0]
        if base in seen or (pat and not pat.search(base)): continue
        seen.add(base)
        keys = ','.join(k for k in funcs if k.split('$')[0] == base)
        # find the source file
        name = base.split('.')[-1]
        src = None
        for g in glob.glob(os.path.join(W, pkg, '*.go')):
            if g.endswith('_test.go') or 'zz_verif' in g: continue
            t = open(g).read()
            if '.' in base:
                if re.search(r'^func \(\w+ \*?%s(\[[^\]]*\])?\) %s\(' % (re.escape(base.split('.')[0]), re.escape(name)), t, re.M): src = g
            elif re.search(r'^func %s(\[[^\]]*\])?\(' % re.escape(name), t, re.M): src = g
        if not src:
            print('SKIP %s: source not found' % base); continue
        sites = subprocess.run(['/verif/govc/bin/mutsweep', src, base], capture_output=True, text=True).stdout.strip().split('\n')
        sites = [s for s in sites if s]
        if not sites: continue
        base_f, err, nob, _ = verify(keys)
        if err or nob == 0:
            print('SKIP %s: baseline does not verify (%d obligations)' % (base, nob)); continue
        orig = open(src).read()
        surv = []
        for s in sites:
            n = s.split()[0]
            mut = subprocess.run(['/verif/govc/bin/mutsweep', '-apply', n, src, base], capture_output=True, text=True).stdout
            open(src, 'w').write(mut)
            f2, err2, nob2, out2 = verify(keys)
            open(src, 'w').write(orig)
            if err2 or nob2 == 0:
                continue  # does not compile / translate: not a survivor
            if not (f2 - base_f):
                surv.append(s)
        print('%s: %d mutants, %d survive (baseline %d obligations, %d undecided)' % (base, len(sites), len(surv), nob, len(base_f)), flush=True)
        for s in surv:
            ln = int(s.split()[1].split(':')[0])
            print('    SURVIVES %s | %s' % (s, orig.split('\n')[ln-1].strip()[:110]), flush=True)
finally:
    subprocess.run(['git', '-C', '/repo', 'worktree', 'remove', '--force', W])
