#!/bin/sh
# Warms the Go build cache for the packages whose bounded harnesses run through `go test -overlay`.
export GOFLAGS=-mod=mod GOPROXY=off GOSUMDB=off GOTOOLCHAIN=local
GO=/root/go/pkg/mod/golang.org/toolchain@v0.0.1-go1.26.6.linux-amd64/bin/go
cd /repo || exit 0
for d in $(ls -d /verif/bounded/*/ 2>/dev/null); do
  for f in "$d"*_test.go; do
    [ -f "$f" ] || continue
    pkg=$(sed -n 's#^// verif-pkg: *##p' "$f" | head -1)
    [ -n "$pkg" ] && echo "$pkg"
  done
done | sort -u | while read pkg; do
  $GO test -vet=off -count=1 -run '^$' "./$pkg/" >/dev/null 2>&1 || true
done
exit 0
