#!/bin/bash
# Must-fail corpus: applies each /verif/selftest/<name>/patch.diff to a scratch git worktree of /repo (HEAD plus the
# contract sidecars; /repo itself is never touched), runs the quick check of the property it breaks there (expect exit 1 +
# VIOLATION) or of a benign edit (expect exit 0), then reverts. The scratch worktree is removed at the end.
# usage: selftest.sh [name-prefix]        results of a full run are copied to /verif/selftest/RESULTS.txt
W=/tmp/verif-selftest-repo-$$
git -C /repo worktree add -q --detach $W HEAD || exit 2
trap 'git -C /repo worktree remove --force $W >/dev/null 2>&1; rm -rf /tmp/verif-selftest-evidence-$$ /tmp/verif-selftest-replays-$$' EXIT
cp /repo/go.sum $W/go.sum 2>/dev/null
pass=0; fail=0
log=/tmp/verif-selftest-$$.log; : > $log
for d in /verif/selftest/${1}*/; do
  [ -f $d/patch.diff ] || continue
  name=$(basename $d)
  prop=$(python3 -c "import json;print(json.load(open('$d/meta.json'))['property'])")
  expect=$(python3 -c "import json;print(json.load(open('$d/meta.json'))['expect'])")
  git -C $W checkout -q --detach $(git -C /repo rev-parse HEAD)   # follow /repo's HEAD (contracts may have been committed meanwhile)
  git -C $W apply $d/patch.diff || { echo "$name: PATCH DOES NOT APPLY" | tee -a $log; fail=$((fail+1)); continue; }
  noretry=""; [ "$expect" = "violation" ] && noretry=1
  out=$(VERIF_NO_RETRY=$noretry VERIF_REPO=$W VERIF_EVIDENCE_DIR=/tmp/verif-selftest-evidence-$$ VERIF_REPLAY_DIR=/tmp/verif-selftest-replays-$$ /verif/govc/bin/govc check -p $prop -tier quick 2>&1); rc=$?
  git -C $W checkout -- . ; git -C $W clean -fdq -- . >/dev/null 2>&1
  if [ "$expect" = "violation" ]; then
    if [ $rc -eq 1 ] && echo "$out" | grep -q "^VIOLATION property=$prop"; then
      echo "ok   $name ($prop): $(echo "$out" | grep -m1 '^FAILED OBLIGATION' | cut -c1-150)" | tee -a $log; pass=$((pass+1))
    else echo "MISS $name ($prop): rc=$rc" | tee -a $log; fail=$((fail+1)); fi
  else
    if [ $rc -eq 0 ]; then echo "ok   $name ($prop): benign edit passes" | tee -a $log; pass=$((pass+1))
    else echo "FALSE-ALARM $name ($prop): $(echo "$out" | grep -m1 '^FAILED OBLIGATION' | cut -c1-150)" | tee -a $log; fail=$((fail+1)); fi
  fi
done
echo "selftest: $pass ok, $fail bad" | tee -a $log
[ -z "$1" ] && cp $log /verif/selftest/RESULTS.txt
rm -f $log
[ $fail -eq 0 ]
