#!/bin/bash
# Must-fail corpus: applies each /verif/selftest/<name>/patch.diff to /repo, runs the quick check of the
# property it breaks (expect exit 1 + VIOLATION) or of a benign edit (expect exit 0), then reverts.
# usage: selftest.sh [name-prefix]
cd /repo
git diff --quiet || { echo "repo dirty, refusing"; exit 2; }
pass=0; fail=0
for d in /verif/selftest/${1}*/; do
  name=$(basename $d)
  prop=$(python3 -c "import json;print(json.load(open('$d/meta.json'))['property'])")
  expect=$(python3 -c "import json;print(json.load(open('$d/meta.json'))['expect'])")
  git apply $d/patch.diff || { echo "$name: PATCH DOES NOT APPLY"; fail=$((fail+1)); continue; }
  out=$(VERIF_EVIDENCE_DIR=/tmp/verif-selftest-evidence /verif/govc/bin/govc check -p $prop -tier quick 2>&1); rc=$?
  git checkout -- . ; git clean -fdq -- . >/dev/null 2>&1
  if [ "$expect" = "violation" ]; then
    if [ $rc -eq 1 ] && echo "$out" | grep -q "^VIOLATION property=$prop"; then
      echo "ok   $name ($prop): $(echo "$out" | grep -m1 '^FAILED OBLIGATION' | cut -c1-150)"; pass=$((pass+1))
    else echo "MISS $name ($prop): rc=$rc"; fail=$((fail+1)); fi
  else
    if [ $rc -eq 0 ]; then echo "ok   $name ($prop): benign edit passes"; pass=$((pass+1))
    else echo "FALSE-ALARM $name ($prop): $(echo "$out" | grep -m1 '^FAILED OBLIGATION' | cut -c1-150)"; fail=$((fail+1)); fi
  fi
done
echo "selftest: $pass ok, $fail bad"
[ $fail -eq 0 ]
