#!/bin/bash
# Must-fail corpus: applies each /verif/selftest/<name>/patch.diff to a scratch git worktree of /repo (HEAD plus the
# contract sidecars; /repo itself is never touched), runs the quick check of the property it breaks there (expect exit 1 +
# VIOLATION) or of a harmless edit (expect exit 0), then reverts. Scratch worktrees are removed at the end.
# usage: selftest.sh [name-prefix]        a full run uses 4 parallel workers and copies its results to /verif/selftest/RESULTS.txt
prefix=$1
worker() { # $1 = worker index, $2 = number of workers
  local W=/tmp/verif-selftest-repo-$$-$1
  git -C /repo worktree add -q --detach $W HEAD || return 2
  local n=0
  for d in /verif/selftest/${prefix}*/; do
    [ -f $d/patch.diff ] || continue
    n=$((n+1)); [ $((n % $2)) -eq $1 ] || continue
    name=$(basename $d)
    prop=$(python3 -c "import json;print(json.load(open('$d/meta.json'))['property'])")
    expect=$(python3 -c "import json;print(json.load(open('$d/meta.json'))['expect'])")
    git -C $W checkout -q --detach $(git -C /repo rev-parse HEAD)   # follow /repo's HEAD
    git -C $W apply $d/patch.diff || { echo "BAD  $name: PATCH DOES NOT APPLY"; continue; }
    noretry=""; [ "$expect" = "violation" ] && noretry=1
    out=$(VERIF_NO_RETRY=$noretry VERIF_REPO=$W VERIF_EVIDENCE_DIR=/tmp/verif-selftest-evidence-$$-$1 VERIF_REPLAY_DIR=/tmp/verif-selftest-replays-$$-$1 /verif/govc/bin/govc check -p $prop -tier quick 2>&1); rc=$?
    git -C $W checkout -q -- . ; git -C $W clean -fdq -- . >/dev/null 2>&1
    if [ "$expect" = "violation" ]; then
      if [ $rc -eq 1 ] && echo "$out" | grep -q "^VIOLATION property=$prop"; then
        echo "ok   $name ($prop): $(echo "$out" | grep -m1 '^FAILED OBLIGATION' | cut -c1-150)"
      else echo "MISS $name ($prop): rc=$rc"; fi
    else
      if [ $rc -eq 0 ]; then echo "ok   $name ($prop): harmless edit passes"
      else echo "FALSE-ALARM $name ($prop): $(echo "$out" | grep -m1 '^FAILED OBLIGATION' | cut -c1-150)"; fi
    fi
  done
  git -C /repo worktree remove --force $W >/dev/null 2>&1
  rm -rf /tmp/verif-selftest-evidence-$$-$1 /tmp/verif-selftest-replays-$$-$1
}
log=/tmp/verif-selftest-$$.log; : > $log
workers=4; [ -n "$prefix" ] && workers=1
for i in $(seq 0 $((workers-1))); do worker $i $workers >> $log 2>&1 & done
wait
sort -k2 $log
pass=$(grep -c '^ok' $log); fail=$(grep -vc '^ok' $log)
echo "selftest: $pass ok, $fail bad"
[ -z "$prefix" ] && { sort -k2 $log; echo "selftest: $pass ok, $fail bad"; } > /verif/selftest/RESULTS.txt
rm -f $log
[ $fail -eq 0 ]
