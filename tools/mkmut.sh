#!/bin/bash
# usage: mkmut.sh <name> <property> <violation|pass> <file-relative-to-repo> <python-replace-old> <python-replace-new>
# Creates /verif/selftest/<name>/{patch.diff,meta.json} from a single textual replacement (must match exactly once).
set -e
name=$1; prop=$2; expect=$3; file=$4; old=$5; new=$6
cd /repo
git diff --quiet || { echo "repo dirty"; exit 1; }
python3 - "$file" "$old" "$new" <<'PY'
import sys
f,old,new=sys.argv[1:4]
s=open(f).read()
n=s.count(old)
if n!=1:
    print("pattern occurs %d times"%n); sys.exit(1)
open(f,'w').write(s.replace(old,new))
PY
mkdir -p /verif/selftest/$name
git diff > /verif/selftest/$name/patch.diff
git checkout -- .
cat > /verif/selftest/$name/meta.json <<META
{"property": "$prop", "expect": "$expect", "file": "$file"}
META
echo "created $name"
