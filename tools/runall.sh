#!/bin/bash
# Runs the quick check of every claimed property on the current tree (regenerates /verif/evidence).
cd /verif
rc=0
for p in $(python3 -c "import json;print(' '.join(c['property_id'] for c in json.load(open('MANIFEST.json'))['checks']))"); do
  out=$(/verif/govc/bin/govc check -p $p -tier ${1:-quick} 2>&1); r=$?
  echo "$out" | tail -1
  if [ $r -ne 0 ]; then echo "$out" | grep -E "^(VIOLATION|FAILED|KNOWN)" | head -5; rc=1; fi
done
exit $rc
