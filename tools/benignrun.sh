#!/bin/bash
# Runs the quick checks of the properties whose contracts live in the files a (behaviour-preserving) diff touches, against a
# scratch worktree of /repo with the diff applied. Expected: every check exits 0.   usage: benignrun.sh <diff> [label]
diff=$1; label=${2:-$(basename $diff)}
props=""
for f in $(grep '^+++ b/' $diff | sed 's|^+++ b/||'); do
  case $f in
    ring/model.go) props="$props C03 C04 C05 C13";;
    ring/partition_ring_model.go) props="$props C03 C04 C15";;
    ring/ring.go) props="$props C01 C02 C05 C12 C13 C14";;
    ring/replication_strategy.go) props="$props C01 C02";;
    ring/batch.go) props="$props C10";;
    ring/replication_set_tracker.go|ring/replication_set.go) props="$props C11 C02";;
    ring/token_range.go) props="$props C14";;
    ring/partition_ring.go) props="$props C12 C14 C15";;
    ring/lifecycler.go|ring/basic_lifecycler.go|ring/basic_lifecycler_delegates.go) props="$props C08 C09";;
    ring/partition_instance_lifecycler.go|ring/partition_instance_ring.go) props="$props C15";;
    ring/token_generator.go|ring/spread_minimizing_token_generator.go) props="$props C16";;
    ring/*) props="$props C01 C05";;
    kv/memberlist/*) props="$props C03 C04 C06 C07";;
    kv/*) props="$props C07";;
    services/*) props="$props C17 C18";;
    modules/*) props="$props C18";;
    cache/*) props="$props C19";;
    tenant/*|user/*) props="$props C20";;
  esac
done
props=$(echo $props | tr ' ' '\n' | sort -u | tr '\n' ' ')
W=/tmp/verif-benign-repo-$$
git -C /repo worktree add -q --detach $W HEAD || exit 2
trap 'git -C /repo worktree remove --force $W >/dev/null 2>&1' EXIT
git -C $W apply $diff || { echo "$label: PATCH DOES NOT APPLY"; exit 2; }
bad=0
for p in $props; do
  out=$(VERIF_REPO=$W VERIF_EVIDENCE_DIR=/tmp/verif-benign-evidence-$$ VERIF_REPLAY_DIR=/tmp/verif-benign-replays-$$ /verif/govc/bin/govc check -p $p -tier quick 2>&1); rc=$?
  if [ $rc -ne 0 ]; then bad=1; echo "FALSE-ALARM $label $p: $(echo "$out" | grep -m2 '^FAILED OBLIGATION' | cut -c1-220 | tr '\n' ' ')"; else echo "ok $label $p"; fi
done
rm -rf /tmp/verif-benign-replays-$$ /tmp/verif-benign-evidence-$$
exit $bad
