#!/bin/bash
# Runs every blind-seeded change under /verif/seeded against its property's quick check (3 at a time, each on its own
# scratch worktree) and records the outcome in /verif/seeded/RESULTS.txt (P = a proof obligation fails, B = a bounded case
# fails, L = obligations lost).
cd /verif
out=/verif/seeded/RESULTS.txt
one() {
  n=$1
  r=$(tools/seedrun.sh $n quick 400)
  rc=$(echo "$r" | grep -o 'rc=[0-9]*' | tail -1)
  how=""
  echo "$r" | grep '^FAILED OBLIGATION' | grep -v 'bounded:' | grep -vq 'translation\|no longer generated\|unit lost\|#anchor:' && how="${how}P"
  echo "$r" | grep '^FAILED OBLIGATION' | grep -q 'translation\|no longer generated\|unit lost\|#anchor:' && how="${how}L"
  echo "$r" | grep -q '^FAILED OBLIGATION bounded:' && how="${how}B"
  input=$(echo "$r" | grep -q 'no-failing-input-found' && echo "some-without-input" || echo "input")
  first=$(echo "$r" | grep -m1 '^FAILED OBLIGATION' | cut -c19-140)
  echo "$n $rc caught-by=${how:-NONE} $input :: $first"
}
export -f one
ls -d seeded/*/ | while read d; do [ -f $d/patch.diff ] && basename $d; done | xargs -P 4 -I{} bash -c 'one {}' > $out.tmp
sort $out.tmp > $out; rm -f $out.tmp
cat $out
bad=$(grep -vc ' rc=1 ' $out)
echo "seeded changes not reported: $bad"
[ $bad -eq 0 ]
