#!/bin/bash
# Runs every blind-seeded change under /verif/seeded against its property's quick check and records the outcome in
# /verif/seeded/RESULTS.txt (P = a proof obligation fails, B = a bounded case fails, L = obligations lost).
cd /verif
out=/verif/seeded/RESULTS.txt
: > $out.tmp
bad=0
for d in seeded/*/; do
  n=$(basename $d)
  [ -f $d/patch.diff ] || continue
  r=$(tools/seedrun.sh $n quick 400)
  rc=$(echo "$r" | grep -o 'rc=[0-9]*' | tail -1)
  how=""
  echo "$r" | grep '^FAILED OBLIGATION' | grep -v 'bounded:' | grep -vq 'translation\|no longer generated\|unit lost' && how="${how}P"
  echo "$r" | grep '^FAILED OBLIGATION' | grep -q 'translation\|no longer generated\|unit lost' && how="${how}L"
  echo "$r" | grep -q '^FAILED OBLIGATION bounded:' && how="${how}B"
  input=$(echo "$r" | grep -q 'no-failing-input-found' && echo "some-without-input" || echo "input")
  first=$(echo "$r" | grep -m1 '^FAILED OBLIGATION' | cut -c19-140)
  echo "$n $rc caught-by=${how:-NONE} $input :: $first" | tee -a $out.tmp
  [ "$rc" = "rc=1" ] || bad=$((bad+1))
done
mv $out.tmp $out
echo "seeded changes not reported: $bad"
[ $bad -eq 0 ]
