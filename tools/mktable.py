#!/usr/bin/env python3
# Regenerates the per-property table of DESIGN.md section 13.2 from /verif/evidence (numbers) and the texts below.
import json,re
rows={
'C01':("searchToken; default strategy Filter = order-preserving healthy subsequence with exact quorum arithmetic; health; canStopLooking; walk accounting in findInstancesForKey (target = RF + extending instances, completeness without zones, zone quotas charged by non-extending instances); memory safety over a well-formed ring","equality of the walked set with the statement's walk (which instance is met when); locality clause undecided"),
'C02':("GetReplicationSetForOperation thresholds with and without zone awareness; arithmetic intersection lemmas; pigeonhole step (cardinality by recursion, induction) and end-to-end share-a-replica / share-a-zone lemmas; tracker counting and decision units","executors themselves (C10 sequential view / C11 bounded)"),
'C03':("both `mergeWithTime` apply exactly the per-entry join and return exactly the updated entries; join idempotent/commutative/associative under the proviso","lifting to descriptors/delivery orders (pointwise, not mechanised)"),
'C04':("local removal -> tombstone in the change (ring and partition ring); tombstoneWins; RemoveTombstones (both descriptors); read path strips tombstones; first stored value keeps its tombstones (computeNewValue); store GC drops only deleted keys","virtual-clock hypothesis"),
'C05':("normalizeIngestersMap; conflictingTokensExist (no false negative); resolveConflicts (unique minimal winner, total order lemmas, sorted disjoint lists); memory frames (no in-place write to shared token storage); index construction: getTokensInfo, GetTokens, getZones, setRingStateFromDesc establish ringRep/zonesRep","replica-level agreement; byZoneRep; MergeTokens assumed a sorted merge"),
'C06':("Invalidates; state parser bounds; bad messages never reach the store; every parsed full-state entry handled on its own; stored => notified and rebroadcast; when an update is stored (content / tombstone stripping / deletion flag)","convergence (liveness): bounded only"),
'C07':("per-backend compare-and-write step; consul/etcd client loops; memberlist CAS loop and single attempt (failure leaves the store unchanged); prefix/multi forwarding; the store keeps a copy of the caller's value","serialisation of the steps (mutex atomicity) assumed; history-level chain lemma argued"),
'C08':("every lifecycler CAS callback, for every input ring: frame on other entries, own entry content, legal state edges; auto-join tokens chosen inside the callback for the ring version handed in and not taken; readiness (tokens held, ring / own entry checked, latch)","heartbeat monotonicity over time, token uniqueness at activation: bounded"),
'C09':("initRing for every ring x tokens-file content; re-registration; an accepted transition is remembered whether or not the write succeeded","reaching ACTIVE (liveness); tokens-file atomicity"),
'C10':("DoBatchWithOptions skeleton (cleanup once, >=1 replica call at the wait, grouping, per-key countdown/tolerances); batchTracker.record / recordError as sequential counters (fail fast exactly at tolerance or last replica; done exactly at threshold); cleanup waiter spawned after every replica call","interleavings of concurrent record calls, channel delivery: bounded only"),
'C11':("default/zone-aware/in-flight trackers as sequential data structures","DoUntilQuorum executors (generics, goroutines): bounded only"),
'C12':("instance ring: shard members are ring entries, read-only rule, walk memory safety; partition ring: membership over the RETURNED ring, sub-descriptor (WithPartitions), constructor, whole-ring request, walk memory safety","determinism, size, containment, +-1 consistency, look-back superset: bounded only"),
'C13':("RingCompare result <=> field-wise equality; field partition; look-back cache validity interval; plain cache hit refreshes every entry; cache field writers","index footprints, cache insertion/clearing: bounded"),
'C14':("the property statement itself for both rings: GetTokenRangesForInstance, GetTokenRangesForPartition, IncludesKey, searchToken; partition ring constructor (lookup arrays describe the descriptor)","relation to lookups that skip inactive partitions (bounded on all-active rings); sub-ring token lists (mergeTokenGroups): bounded; strict ascent of partition tokens: precondition"),
'C15':("ActivePartitionForKey; edge table; state changes; lifecycler callbacks; GetReplicationSetsForOperation; 'active' in the routing arrays = descriptor state (constructor contract)","multi-lifecycler histories via C07; liveness undecided"),
'C16':("random generator; spread-minimising filter; first instance tokens; calculateNewToken congruence","generateTokensByInstanceID (floats, heap): bounded, incl. a 1300-instance zone"),
'C17':("switchState sole writer; legal edges at all call sites; main goroutine ordering; StartAsync/StopAsync/awaitState; AddListener registers unless terminal; manager transition (healthy waiters released exactly when reached or unreachable); timer / idle running functions (first iteration error returned); StopAsync cancels exactly a started service","listener delivery order, concurrent races: bounded"),
'C18':("AddDependency acyclicity; orderedDeps topological; init bookkeeping (at most once, shared map); start/stop ordering at the awaiting calls; stop-dependency list = every module from which the module is reachable","exactly-once under latencies: bounded"),
'C19':("versioned keys; snappy layer; reference backend; LRU layer write-through incl. the local copy (replaced by every accepted store, dropped by delete); server list resolved in natural order; jumpHash range","LRU contents/expiry, stack composition, move-only clause: bounded"),
'C20':("character table; ValidTenantID iff; NormalizeTenantIDs; cuts; TenantID/parseTenantIDs incl. same-tenant clause","resolver agreement across APIs, transports: bounded"),
}
lines=["| id | fns | obl | proved (all inputs) | bounded stand-in only / assumed |","|---|---|---|---|---|"]
for pid in sorted(rows):
    ev=json.load(open('/verif/evidence/%s.json'%pid))['coverage']
    lines.append("| %s | %d | %d | %s | %s |"%(pid,len(ev['functions_under_contract']),ev['discharged'],rows[pid][0],rows[pid][1]))
p='/verif/DESIGN.md'; s=open(p).read()
a=s.index("| id | fns | obl | proved (all inputs) |")
b=s.index("\n\n",a)
s=s[:a]+"\n".join(lines)+s[b:]
open(p,'w').write(s)
print("table regenerated")
