#!/bin/bash
# Intake of one blind-seeded change: confirm it in its scratch worktree, store it under /verif/seeded/<name>, run the
# property's quick check against a scratch worktree with the change applied, remove the agent's worktree.
#   usage: seedintake.sh <name> <property> <worktree>      (log: /tmp/seedintake-<name>.log)
name=$1; prop=$2; wt=$3
{
  /verif/tools/seedconfirm.sh "$name" "$prop" "$wt" 2>&1 | tail -8
  if [ -d /verif/seeded/$name ]; then
    /verif/tools/seedrun.sh "$name" quick 10 2>&1
    git -C /repo worktree remove --force "$wt"
  fi
} > /tmp/seedintake-$name.log 2>&1
