#!/usr/bin/env python3
"""Regenerates /verif/MANIFEST.json from tools/claims.json (the per-property claim table)."""
import json, os
V = "/verif"
claims = json.load(open(f"{V}/tools/claims.json"))
props = [json.loads(l) for l in open(f"{V}/properties.jsonl")]
GO = "/root/go/pkg/mod/golang.org/toolchain@v0.0.1-go1.26.6.linux-amd64/bin/go"
m = {
 "version": 1,
 "setup_cmd": "cd /verif/govc && GOFLAGS=-mod=mod GOPROXY=off GOSUMDB=off GOTOOLCHAIN=local go1.26.8 build -o bin/govc . && /verif/tools/warm.sh",
 "hooks": {
  "guard": "verif",
  "enable": "-tags verif: the only hook files are comment-only contract sidecars /repo/<pkg>/zz_verif_contracts_*.go (//go:build verif, no code); govc reads them with go/packages BuildFlags -tags=verif",
  "baseline_off_cmd": "cd /repo && GOFLAGS=-mod=mod GOPROXY=off GOTOOLCHAIN=local " + GO + " test -json -vet=off -count=1 -timeout 25m ./...",
  "source_commits": claims.get("hook_commits", []),
  "add_only": True,
 },
 "engines": [{
  "name": "govc", "path": "/verif/govc",
  "serves_properties": sorted(claims["claimed"].keys()),
  "kind_free_text": "contract-based deductive verifier for Go written for this task: contracts in //@ comment sidecars, verification conditions generated from the typed AST of /repo on every run, discharged by z3 4.8.12 / z3 5.1.0 / cvc5 1.0; bounded stand-ins (labelled) executed on the real code through go test -overlay",
 }],
 "checks": [],
 "not_applicable": [],
 "notes": claims.get("notes", ""),
}
for p in props:
    pid = p["id"]
    if pid in claims["claimed"]:
        c = claims["claimed"][pid]
        m["checks"].append({
            "property_id": pid,
            "quick_cmd": f"/verif/govc/bin/govc check -p {pid} -tier quick",
            "thorough_cmd": f"/verif/govc/bin/govc check -p {pid} -tier thorough",
            "evidence_file": f"/verif/evidence/{pid}.json",
            "replay_cmd_template": "cat {path}",
            "engine": "govc",
            "level_claimed": {"category": "proof", "text": c["text"], "design_ref": c.get("design_ref", "DESIGN.md section 10 " + pid)},
            "level_note": c["note"],
            "technique": c.get("technique", "contract-based deductive verification: weakest-precondition style VCs from the typed Go AST, SMT portfolio (z3/cvc5)"),
        })
    else:
        m["not_applicable"].append({"property_id": pid, "reason": claims["not_applicable"].get(pid, "no contract-based check has been built for this property yet (see DESIGN.md section 13 status)")})
json.dump(m, open(f"{V}/MANIFEST.json", "w"), indent=1)
print("claimed:", sorted(claims["claimed"].keys()))
