module mutsweep

go 1.26
