// mutsweep enumerates single-operator mutants of one function and prints, per mutant, a line
//   <n> <line>:<col> <old> -> <new>
// With -apply n it writes the mutated file content to stdout.
// usage: mutsweep [-apply n] file.go FuncName   (FuncName may be Recv.Method)
package main

import (
	"flag"
	"fmt"
	"go/ast"
	"go/parser"
	"go/token"
	"os"
)

var swaps = map[token.Token][]token.Token{
	token.LSS: {token.LEQ}, token.LEQ: {token.LSS}, token.GTR: {token.GEQ}, token.GEQ: {token.GTR},
	token.EQL: {token.NEQ}, token.NEQ: {token.EQL}, token.LAND: {token.LOR}, token.LOR: {token.LAND},
	token.ADD: {token.SUB}, token.SUB: {token.ADD},
}

type site struct {
	off  int
	old  token.Token
	new  string
	pos  token.Position
	kind string
}

func main() {
	apply := flag.Int("apply", -1, "")
	flag.Parse()
	file, fn := flag.Arg(0), flag.Arg(1)
	src, err := os.ReadFile(file)
	if err != nil {
		panic(err)
	}
	fset := token.NewFileSet()
	f, err := parser.ParseFile(fset, file, src, 0)
	if err != nil {
		panic(err)
	}
	var sites []site
	for _, d := range f.Decls {
		fd, ok := d.(*ast.FuncDecl)
		if !ok || fd.Body == nil {
			continue
		}
		name := fd.Name.Name
		if fd.Recv != nil && len(fd.Recv.List) > 0 {
			t := fd.Recv.List[0].Type
			if s, ok := t.(*ast.StarExpr); ok {
				t = s.X
			}
			if ix, ok := t.(*ast.IndexExpr); ok {
				t = ix.X
			}
			if id, ok := t.(*ast.Ident); ok {
				name = id.Name + "." + name
			}
		}
		if name != fn {
			continue
		}
		ast.Inspect(fd.Body, func(n ast.Node) bool {
			switch e := n.(type) {
			case *ast.BinaryExpr:
				for _, nw := range swaps[e.Op] {
					if (e.Op == token.ADD || e.Op == token.SUB) && isString(e) {
						continue
					}
					sites = append(sites, site{fset.Position(e.OpPos).Offset, e.Op, nw.String(), fset.Position(e.OpPos), "op"})
				}
			case *ast.BasicLit:
				if e.Kind == token.INT && (e.Value == "0" || e.Value == "1") {
					nv := "1"
					if e.Value == "1" {
						nv = "2"
					}
					sites = append(sites, site{fset.Position(e.Pos()).Offset, token.INT, nv, fset.Position(e.Pos()), "lit" + e.Value})
				}
			case *ast.UnaryExpr:
				if e.Op == token.NOT {
					sites = append(sites, site{fset.Position(e.OpPos).Offset, token.NOT, "", fset.Position(e.OpPos), "not"})
				}
			}
			return true
		})
	}
	if *apply < 0 {
		for i, s := range sites {
			fmt.Printf("%d %d:%d %s %s -> %q\n", i, s.pos.Line, s.pos.Column, s.kind, s.old, s.new)
		}
		return
	}
	s := sites[*apply]
	oldLen := len(s.old.String())
	if s.kind[:3] == "lit" {
		oldLen = 1
	}
	out := append([]byte{}, src[:s.off]...)
	out = append(out, []byte(s.new)...)
	out = append(out, src[s.off+oldLen:]...)
	os.Stdout.Write(out)
}

func isString(e *ast.BinaryExpr) bool {
	if l, ok := e.X.(*ast.BasicLit); ok && l.Kind == token.STRING {
		return true
	}
	if l, ok := e.Y.(*ast.BasicLit); ok && l.Kind == token.STRING {
		return true
	}
	return false
}
