#!/bin/bash
# Creates a scratch worktree of /repo for a blind-seeding sub-agent: detached HEAD, contract sidecars removed (committed
# on the detached HEAD so that `git diff` in the worktree shows only the agent's change).  usage: mkseedwt.sh <dir>
set -e
W=$1
git -C /repo worktree add -q --detach $W HEAD
cd $W
git rm -q $(git ls-files | grep zz_verif_contracts)
git -c user.name=x -c user.email=x@x commit -q -m "scratch: sidecars removed"
echo $W
