#!/bin/bash
# Confirms a blind-seeded change delivered by a sub-agent in its scratch worktree and stores it under /verif/seeded/<name>.
#   usage: seedconfirm.sh <name> <property> <worktree> [extra test packages...]
# Steps (all in the scratch worktree, never in /repo):
#   1. revert the worktree to its HEAD, keep patch.diff + demo test aside
#   2. without the patch: the demonstration passes
#   3. with the patch: go build ./... works, the existing tests of the touched packages (+extra) pass, the demonstration fails
# then copies patch.diff, the demonstration and meta.json to /verif/seeded/<name>/.
set -u
name=$1; prop=$2; wt=$3; shift 3
GO=/root/go/pkg/mod/golang.org/toolchain@v0.0.1-go1.26.6.linux-amd64/bin/go
export GOFLAGS=-mod=mod GOPROXY=off GOSUMDB=off GOTOOLCHAIN=local
cd $wt || exit 2
[ -f patch.diff ] || { echo "no patch.diff"; exit 2; }
demo=$(git status --porcelain | grep '^??' | awk '{print $2}' | grep '_test.go$' | head -1)
[ -n "$demo" ] || { echo "no demo test file found (untracked *_test.go)"; exit 2; }
demopkg=./$(dirname $demo)
demorun=$(grep -o '^func Test[A-Za-z0-9_]*' $demo | sed 's/func //' | paste -sd'|')
echo "demo: $demo  tests: $demorun"
git checkout -q -- . || exit 2
echo "--- without the patch: demonstration must pass"
$GO test -vet=off -count=1 -timeout 10m -run "^($demorun)\$" $demopkg > /tmp/seed-$name-demo-clean.log 2>&1; rc=$?
tail -3 /tmp/seed-$name-demo-clean.log
[ $rc -eq 0 ] || { echo "REJECT: demonstration fails on unchanged code"; exit 1; }
git apply patch.diff || { echo "REJECT: patch does not apply"; exit 1; }
touched=$(git diff --name-only | xargs -n1 dirname | sort -u | sed 's|^|./|')
echo "--- with the patch: build"
$GO build ./... || { echo "REJECT: does not build"; exit 1; }
echo "--- with the patch: existing tests of $touched $*"
mv $demo /tmp/seed-$name-demo.go.hold
$GO test -vet=off -count=1 -timeout 25m $touched "$@" > /tmp/seed-$name-tests.log 2>&1; rc=$?
mv /tmp/seed-$name-demo.go.hold $demo
grep -E '^(ok|FAIL|---)' /tmp/seed-$name-tests.log | head -20
[ $rc -eq 0 ] || { echo "REJECT: existing tests fail with the patch"; exit 1; }
echo "--- with the patch: demonstration must fail"
$GO test -vet=off -count=1 -timeout 10m -run "^($demorun)\$" $demopkg > /tmp/seed-$name-demo-patched.log 2>&1; rc=$?
tail -5 /tmp/seed-$name-demo-patched.log
[ $rc -ne 0 ] || { echo "REJECT: demonstration passes with the patch"; exit 1; }
d=/verif/seeded/$name
mkdir -p $d
cp patch.diff $d/patch.diff
cp $demo $d/demo_test.go.txt
[ -f NOTES.md ] && cp NOTES.md $d/NOTES.md
python3 - "$d" "$prop" "$demo" "$demorun" "$touched $*" <<'E'
import json,sys
d,prop,demo,run,pk=sys.argv[1:6]
json.dump({"property":prop,"origin":"blind sub-agent (given only the property text and a scratch worktree without /verif material)",
 "demo_file":demo,"demo_tests":run.split('|'),"confirmed":{"builds":True,"existing_tests_pass":pk.split(),"demo_fails_with_patch":True,"demo_passes_without_patch":True}},
 open(d+"/meta.json","w"),indent=1)
E
echo "CONFIRMED -> $d"
